// Package galloc provides guard allocators used as the memory sanitizer for
// nitro's user-managed memory mode, plus an exact shadow live-set.
//
//   - PageGuard: every block gets its own page(s) at the end of which it is
//     placed, followed by an inaccessible guard page; free() revokes access
//     (mmap PROT_NONE over the pages) and the address range is never reused, so
//     every later read or write of the block — by plain loads, atomics or
//     assembly — is a SIGSEGV inside the logged region.
//   - Poison: bump allocation from a private RW region, header + tail canary,
//     free() fills the payload with 0xDD and the block is quarantined for the
//     rest of the process; quarantined blocks are verified at checkpoints.
//
// Both record double frees, invalid frees and leaks exactly (per block).
package galloc

import (
	"fmt"
	"os"
	"runtime"
	"sort"
	"sync"
	"sync/atomic"
	"syscall"
	"unsafe"
)

type Mode int

const (
	Poison Mode = iota
	PageGuard
)

func (m Mode) String() string {
	if m == PageGuard {
		return "pageguard"
	}
	return "poison"
}

const (
	pageSize        = 4096
	pgRegionSize    = 1 << 38 // 256 GiB of address space, PROT_NONE, NORESERVE
	poRegionSize    = 1 << 36 // 64 GiB RW NORESERVE (committed lazily)
	poisonByte      = 0xDD
	canaryByte      = 0xA5
	hdrSize         = 32
	tailSize        = 16
	magicLive       = 0x4c495645 // "LIVE"
	magicFreed      = 0x46524545 // "FREE"
	maxPGLiveBlocks = 24000
	nShards         = 64
	bigBlock        = 4 << 20
)

type region struct {
	once sync.Once
	base uintptr
	size uintptr
	next uintptr // bump offset (atomic)
	err  error
}

var pgRegion, poRegion region

func mmapRaw(addr, length uintptr, prot, flags int) (uintptr, error) {
	r, _, e := syscall.Syscall6(syscall.SYS_MMAP, addr, length, uintptr(prot), uintptr(flags), ^uintptr(0), 0)
	if e != 0 {
		return 0, e
	}
	return r, nil
}

func (r *region) init(size uintptr, prot int, name string) {
	r.once.Do(func() {
		b, err := mmapRaw(0, size, prot, syscall.MAP_PRIVATE|syscall.MAP_ANON|syscall.MAP_NORESERVE)
		if err != nil {
			r.err = err
			return
		}
		r.base, r.size = b, size
		fmt.Fprintf(os.Stderr, "GALLOC region=%s base=0x%x size=0x%x\n", name, b, size)
	})
}

func (r *region) bump(n uintptr) (uintptr, bool) {
	off := atomic.AddUintptr(&r.next, n) - n
	if off+n > r.size {
		return 0, false
	}
	return r.base + off, true
}

// Regions returns the address ranges of the guard regions (0,0 if unused).
func Regions() (pgBase, pgSize, poBase, poSize uintptr) {
	return pgRegion.base, pgRegion.size, poRegion.base, poRegion.size
}

type block struct {
	addr   uintptr // user pointer
	size   int
	id     uint64
	pages  uintptr // pageguard: first page address
	npages uintptr
	stack  [6]uintptr
	fstack [6]uintptr
	big    bool
}

// Violation is something the allocator itself observed.
type Violation struct {
	Kind   string `json:"kind"` // double-free | invalid-free | poison-damaged | canary-damaged | leak
	Addr   string `json:"addr"`
	Size   int    `json:"size"`
	Detail string `json:"detail,omitempty"`
	Alloc  string `json:"alloc_stack,omitempty"`
	Free   string `json:"free_stack,omitempty"`
	Second string `json:"second_stack,omitempty"`
}

type shard struct {
	sync.Mutex
	live  map[uintptr]*block
	freed map[uintptr]*block
}

// Alloc is one allocator instance (one per database / case).
type Alloc struct {
	mode   Mode
	shards [nShards]shard
	nextID uint64

	NAllocs, NFrees    int64
	liveCount          int64
	BytesAllocated     int64
	Stacks             bool
	KeepFreedIndex     bool // remember freed blocks for double-free classification and poison check
	fallbackPoison     int64
	vmu                sync.Mutex
	violations         []Violation
	freedList          []*block
	fmu                sync.Mutex
	yield              func() // optional scheduling perturbation called inside Malloc/Free
	cbmu               sync.RWMutex
	onFree             atomic.Value // func(unsafe.Pointer, int): called before a valid free takes effect
	guardedFreesAtExit int64
}

// New creates an allocator instance.
func New(mode Mode) *Alloc {
	a := &Alloc{mode: mode, Stacks: true, KeepFreedIndex: true}
	for i := range a.shards {
		a.shards[i].live = make(map[uintptr]*block)
		a.shards[i].freed = make(map[uintptr]*block)
	}
	if mode == PageGuard {
		pgRegion.init(pgRegionSize, syscall.PROT_NONE, "pageguard")
		if pgRegion.err != nil {
			panic("galloc: cannot reserve pageguard region: " + pgRegion.err.Error())
		}
	}
	poRegion.init(poRegionSize, syscall.PROT_READ|syscall.PROT_WRITE, "poison")
	if poRegion.err != nil {
		panic("galloc: cannot reserve poison region: " + poRegion.err.Error())
	}
	return a
}

func (a *Alloc) Mode() Mode { return a.mode }

// SetOnFree installs a callback invoked for every valid free before the block
// is poisoned / unmapped (used to monitor "not released while still linked").
// It returns only after every in-flight invocation of the previous callback
// has finished.
func (a *Alloc) SetOnFree(f func(p unsafe.Pointer, size int)) {
	a.cbmu.Lock()
	a.onFree.Store(f)
	a.cbmu.Unlock()
}

// SetYield installs a callback invoked at the start of every Malloc and Free
// (a hook-free yield point inside nitro's allocation paths).
func (a *Alloc) SetYield(f func()) { a.yield = f }

func (a *Alloc) shardOf(p uintptr) *shard { return &a.shards[(p>>4)%nShards] }

func (a *Alloc) addViolation(v Violation) {
	a.vmu.Lock()
	if len(a.violations) < 64 {
		a.violations = append(a.violations, v)
	}
	a.vmu.Unlock()
}

func fmtStack(pcs []uintptr) string {
	n := 0
	for n < len(pcs) && pcs[n] != 0 {
		n++
	}
	if n == 0 {
		return ""
	}
	fr := runtime.CallersFrames(pcs[:n])
	s := ""
	for {
		f, more := fr.Next()
		if f.Function != "" {
			s += fmt.Sprintf("%s:%d;", f.Function, f.Line)
		}
		if !more {
			break
		}
	}
	return s
}

// Malloc implements skiplist.MallocFn.
func (a *Alloc) Malloc(sz int) unsafe.Pointer {
	if a.yield != nil {
		a.yield()
	}
	if sz <= 0 {
		sz = 1
	}
	b := &block{size: sz, id: atomic.AddUint64(&a.nextID, 1)}
	if a.Stacks {
		runtime.Callers(2, b.stack[:])
	}
	if sz > bigBlock {
		// very large requests (e.g. a damaged length prefix): own mapping, unmapped again on free
		n := (uintptr(sz) + pageSize - 1) &^ (pageSize - 1)
		base, err := mmapRaw(0, n, syscall.PROT_READ|syscall.PROT_WRITE, syscall.MAP_PRIVATE|syscall.MAP_ANON|syscall.MAP_NORESERVE)
		if err != nil {
			panic(fmt.Sprintf("galloc: cannot map %d bytes: %v", sz, err))
		}
		b.addr, b.pages, b.npages, b.big = base, base, n/pageSize, true
		s := a.shardOf(b.addr)
		s.Lock()
		s.live[b.addr] = b
		s.Unlock()
		atomic.AddInt64(&a.NAllocs, 1)
		atomic.AddInt64(&a.liveCount, 1)
		return unsafe.Pointer(b.addr)
	}
	usePG := a.mode == PageGuard
	if usePG && atomic.LoadInt64(&a.liveCount) >= maxPGLiveBlocks {
		usePG = false
		atomic.AddInt64(&a.fallbackPoison, 1)
	}
	if usePG {
		rsz := (uintptr(sz) + 7) &^ 7
		np := (rsz + pageSize - 1) / pageSize
		base, ok := pgRegion.bump((np + 1) * pageSize)
		if !ok {
			panic("galloc: pageguard region exhausted")
		}
		if _, _, e := syscall.Syscall(syscall.SYS_MPROTECT, base, np*pageSize, syscall.PROT_READ|syscall.PROT_WRITE); e != 0 {
			// VMA budget or memory: fall back to poison for this block
			usePG = false
			atomic.AddInt64(&a.fallbackPoison, 1)
		} else {
			b.pages, b.npages = base, np
			b.addr = base + np*pageSize - rsz
			// slack canary between block end and guard page
			for i := uintptr(sz); i < rsz; i++ {
				*(*byte)(unsafe.Pointer(b.addr + i)) = canaryByte
			}
		}
	}
	if !usePG {
		total := (uintptr(hdrSize+sz+tailSize) + 15) &^ 15
		base, ok := poRegion.bump(total)
		if !ok {
			panic("galloc: poison region exhausted")
		}
		h := (*[4]uint64)(unsafe.Pointer(base))
		h[0] = magicLive
		h[1] = uint64(sz)
		h[2] = b.id
		h[3] = ^uint64(0)
		b.addr = base + hdrSize
		for i := 0; i < tailSize; i++ {
			*(*byte)(unsafe.Pointer(b.addr + uintptr(sz) + uintptr(i))) = canaryByte
		}
		// fresh memory from the OS is zero; make uninitialised reads visible
		for i := 0; i < sz; i++ {
			*(*byte)(unsafe.Pointer(b.addr + uintptr(i))) = 0xCC
		}
	}
	s := a.shardOf(b.addr)
	s.Lock()
	s.live[b.addr] = b
	s.Unlock()
	atomic.AddInt64(&a.NAllocs, 1)
	atomic.AddInt64(&a.liveCount, 1)
	atomic.AddInt64(&a.BytesAllocated, int64(sz))
	return unsafe.Pointer(b.addr)
}

// Free implements skiplist.FreeFn.
func (a *Alloc) Free(p unsafe.Pointer) {
	if a.yield != nil {
		a.yield()
	}
	addr := uintptr(p)
	s := a.shardOf(addr)
	s.Lock()
	b, ok := s.live[addr]
	if ok {
		delete(s.live, addr)
		if a.KeepFreedIndex {
			s.freed[addr] = b
		}
	}
	var prev *block
	if !ok {
		prev = s.freed[addr]
	}
	s.Unlock()
	var pcs [6]uintptr
	if a.Stacks {
		runtime.Callers(2, pcs[:])
	}
	if !ok {
		v := Violation{Addr: fmt.Sprintf("0x%x", addr), Second: fmtStack(pcs[:])}
		if prev != nil {
			v.Kind = "double-free"
			v.Size = prev.size
			v.Alloc = fmtStack(prev.stack[:])
			v.Free = fmtStack(prev.fstack[:])
		} else {
			v.Kind = "invalid-free"
			v.Detail = "pointer was never returned by this allocator (or is an interior pointer)"
		}
		a.addViolation(v)
		return
	}
	b.fstack = pcs
	a.cbmu.RLock()
	if f, _ := a.onFree.Load().(func(unsafe.Pointer, int)); f != nil {
		f(p, b.size)
	}
	a.cbmu.RUnlock()
	atomic.AddInt64(&a.NFrees, 1)
	atomic.AddInt64(&a.liveCount, -1)
	if b.big {
		syscall.Syscall(syscall.SYS_MUNMAP, b.pages, b.npages*pageSize, 0)
		return
	}
	if b.pages != 0 {
		rsz := (uintptr(b.size) + 7) &^ 7
		for i := uintptr(b.size); i < rsz; i++ {
			if *(*byte)(unsafe.Pointer(b.addr + i)) != canaryByte {
				a.addViolation(Violation{Kind: "canary-damaged", Addr: fmt.Sprintf("0x%x", addr), Size: b.size,
					Detail: "write past the end of the block", Alloc: fmtStack(b.stack[:])})
				break
			}
		}
		// revoke access and give the memory back; the range is never reused
		if _, err := mmapRaw(b.pages, b.npages*pageSize, syscall.PROT_NONE,
			syscall.MAP_PRIVATE|syscall.MAP_ANON|syscall.MAP_NORESERVE|syscall.MAP_FIXED); err != nil {
			syscall.Syscall(syscall.SYS_MPROTECT, b.pages, b.npages*pageSize, syscall.PROT_NONE)
		}
		atomic.AddInt64(&a.guardedFreesAtExit, 1)
	} else {
		h := (*[4]uint64)(unsafe.Pointer(b.addr - hdrSize))
		if h[0] != magicLive || h[1] != uint64(b.size) {
			a.addViolation(Violation{Kind: "canary-damaged", Addr: fmt.Sprintf("0x%x", addr), Size: b.size,
				Detail: "block header overwritten", Alloc: fmtStack(b.stack[:])})
		}
		a.checkTail(b)
		h[0] = magicFreed
		for i := 0; i < b.size; i++ {
			*(*byte)(unsafe.Pointer(b.addr + uintptr(i))) = poisonByte
		}
		if a.KeepFreedIndex {
			a.fmu.Lock()
			a.freedList = append(a.freedList, b)
			a.fmu.Unlock()
		}
	}
}

func (a *Alloc) checkTail(b *block) {
	for i := 0; i < tailSize; i++ {
		if *(*byte)(unsafe.Pointer(b.addr + uintptr(b.size) + uintptr(i))) != canaryByte {
			a.addViolation(Violation{Kind: "canary-damaged", Addr: fmt.Sprintf("0x%x", b.addr), Size: b.size,
				Detail: "write past the end of the block", Alloc: fmtStack(b.stack[:])})
			return
		}
	}
}

// CheckQuarantine verifies that every freed poison-mode block is still fully
// poisoned (no write after free). Call only at quiescent points.
func (a *Alloc) CheckQuarantine() (checked int) {
	a.fmu.Lock()
	list := a.freedList
	a.fmu.Unlock()
	for _, b := range list {
		checked++
		for i := 0; i < b.size; i++ {
			if *(*byte)(unsafe.Pointer(b.addr + uintptr(i))) != poisonByte {
				a.addViolation(Violation{Kind: "poison-damaged", Addr: fmt.Sprintf("0x%x", b.addr), Size: b.size,
					Detail: fmt.Sprintf("byte %d of a freed block was written after free", i),
					Alloc:  fmtStack(b.stack[:]), Free: fmtStack(b.fstack[:])})
				break
			}
		}
		a.checkTail(b)
	}
	return
}

// IsLive reports whether p is the start of a live block.
func (a *Alloc) IsLive(p unsafe.Pointer) bool {
	s := a.shardOf(uintptr(p))
	s.Lock()
	_, ok := s.live[uintptr(p)]
	s.Unlock()
	return ok
}

// WasFreed reports whether p is the start of a block that has been freed.
func (a *Alloc) WasFreed(p unsafe.Pointer) bool {
	s := a.shardOf(uintptr(p))
	s.Lock()
	_, ok := s.freed[uintptr(p)]
	s.Unlock()
	return ok
}

// LiveCount returns the number of live blocks.
func (a *Alloc) LiveCount() int { return int(atomic.LoadInt64(&a.liveCount)) }

// LiveSet returns the addresses of all live blocks.
func (a *Alloc) LiveSet() map[uintptr]int {
	m := make(map[uintptr]int)
	for i := range a.shards {
		s := &a.shards[i]
		s.Lock()
		for k, b := range s.live {
			m[k] = b.size
		}
		s.Unlock()
	}
	return m
}

// Leaks describes up to max live blocks (with allocation stacks).
func (a *Alloc) Leaks(max int) []Violation {
	var bs []*block
	for i := range a.shards {
		s := &a.shards[i]
		s.Lock()
		for _, b := range s.live {
			bs = append(bs, b)
		}
		s.Unlock()
	}
	sort.Slice(bs, func(i, j int) bool { return bs[i].id < bs[j].id })
	var out []Violation
	for i, b := range bs {
		if i >= max {
			break
		}
		out = append(out, Violation{Kind: "leak", Addr: fmt.Sprintf("0x%x", b.addr), Size: b.size, Alloc: fmtStack(b.stack[:])})
	}
	return out
}

// Violations returns what the allocator recorded so far.
func (a *Alloc) Violations() []Violation {
	a.vmu.Lock()
	defer a.vmu.Unlock()
	return append([]Violation(nil), a.violations...)
}

// Stats for evidence.
type Stats struct {
	Mode           string `json:"mode"`
	Allocs         int64  `json:"allocs"`
	Frees          int64  `json:"frees"`
	Live           int64  `json:"live"`
	GuardedFrees   int64  `json:"frees_under_page_guard"`
	FallbackPoison int64  `json:"pageguard_fallbacks_to_poison"`
	Bytes          int64  `json:"bytes_allocated"`
}

func (a *Alloc) Stats() Stats {
	return Stats{Mode: a.mode.String(), Allocs: atomic.LoadInt64(&a.NAllocs), Frees: atomic.LoadInt64(&a.NFrees),
		Live: atomic.LoadInt64(&a.liveCount), GuardedFrees: atomic.LoadInt64(&a.guardedFreesAtExit),
		FallbackPoison: atomic.LoadInt64(&a.fallbackPoison), Bytes: atomic.LoadInt64(&a.BytesAllocated)}
}
