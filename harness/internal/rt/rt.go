// Package rt is the runner: case lists, child processes, crash classification,
// evidence, replay files and known findings.
package rt

import (
	"bufio"
	"encoding/json"
	"fmt"
	"hash/fnv"
	"math/rand"
	"os"
	"os/exec"
	"path/filepath"
	"regexp"
	"sort"
	"strconv"
	"strings"
	"sync"
	"syscall"
	"time"
)

const (
	Held         = "held"
	Violated     = "violated"
	Inconclusive = "inconclusive"
)

// Result is what one case reports.
type Result struct {
	Case     int              `json:"case"`
	Verdict  string           `json:"verdict"`
	Kind     string           `json:"kind,omitempty"`   // violation kind (matched against known findings)
	Detail   string           `json:"detail,omitempty"` // human readable
	Sigs     []string         `json:"sigs,omitempty"`   // signatures of distinct non-trivial things observed
	Counters map[string]int64 `json:"counters,omitempty"`
	Sample   interface{}      `json:"sample,omitempty"`
	Witness  interface{}      `json:"witness,omitempty"`
	Evals    int64            `json:"evals,omitempty"` // evaluations performed inside the case (default 1)
	Extra    []Result         `json:"extra,omitempty"` // additional violations from the same case
}

// C is the per-case context handed to a property's Run.
type C struct {
	Prop  string
	Tier  string
	Seed  int64
	Index int
	Rng   *rand.Rand
	Tmp   string // scratch dir for this case (removed afterwards)
	res   Result
}

func (c *C) Count(name string, n int64) {
	if c.res.Counters == nil {
		c.res.Counters = map[string]int64{}
	}
	c.res.Counters[name] += n
}
func (c *C) Sig(format string, a ...interface{}) {
	if len(c.res.Sigs) < 4096 {
		c.res.Sigs = append(c.res.Sigs, fmt.Sprintf(format, a...))
	}
}
func (c *C) Sample(v interface{}) {
	if c.res.Sample == nil {
		c.res.Sample = v
	}
}
func (c *C) Evals(n int64) { c.res.Evals += n }

// Violate records a violation (the first is the primary one; later ones with a
// different kind are kept as extras).
func (c *C) Violate(kind, detail string, witness interface{}) {
	if c.res.Verdict != Violated {
		c.res.Verdict = Violated
		c.res.Kind = kind
		c.res.Detail = detail
		c.res.Witness = witness
		return
	}
	if kind == c.res.Kind {
		return
	}
	for _, e := range c.res.Extra {
		if e.Kind == kind {
			return
		}
	}
	if len(c.res.Extra) < 8 {
		c.res.Extra = append(c.res.Extra, Result{Case: c.Index, Verdict: Violated, Kind: kind, Detail: detail, Witness: witness})
	}
}
func (c *C) Inconclusive(detail string) {
	if c.res.Verdict == "" || c.res.Verdict == Held {
		c.res.Verdict = Inconclusive
		c.res.Detail = detail
	}
}
func (c *C) Failed() bool { return c.res.Verdict == Violated }

// Prop describes one property check.
type Prop struct {
	ID          string
	Level       string
	Rule        string
	Technique   string
	Assumptions []string
	Cases       func(tier string) int
	Run         func(c *C)
	Batch       func(tier string) int // cases per child process
	Procs       int                   // parallel children (0 = default)
	CaseTimeout time.Duration         // watchdog per case (inconclusive when it fires)
	MinSigs     int                   // below this many distinct signatures the run is inconclusive
	Exhaustive  func(tier string) bool
	// PostAggregate may add fields to the coverage object.
	PostAggregate func(tier string, results []Result, cov map[string]interface{})
}

var registry = map[string]*Prop{}

func Register(p *Prop)    { registry[p.ID] = p }
func Get(id string) *Prop { return registry[id] }
func IDs() []string {
	var ids []string
	for k := range registry {
		ids = append(ids, k)
	}
	sort.Strings(ids)
	return ids
}

func CaseSeed(prop string, seed int64, idx int) int64 {
	h := fnv.New64a()
	fmt.Fprintf(h, "%s/%d/%d", prop, seed, idx)
	return int64(h.Sum64() & 0x7fffffffffffffff)
}

func VerifDir() string {
	if d := os.Getenv("VERIF_DIR"); d != "" {
		return d
	}
	return "/verif"
}

// ---------------------------------------------------------------------------
// child side

func runCase(p *Prop, tier string, seed int64, idx int) (res Result) {
	c := &C{Prop: p.ID, Tier: tier, Seed: seed, Index: idx}
	c.Rng = rand.New(rand.NewSource(CaseSeed(p.ID, seed, idx)))
	c.res.Case = idx
	c.res.Verdict = Held
	tmp, err := os.MkdirTemp("", "nv-"+p.ID+"-")
	if err == nil {
		c.Tmp = tmp
		defer os.RemoveAll(tmp)
	}
	p.Run(c)
	if c.res.Evals == 0 {
		c.res.Evals = 1
	}
	return c.res
}

// ChildMain runs cases [from,to) and appends start markers and results to out.
func ChildMain(propID, tier string, seed int64, from, to int, out string) int {
	p := Get(propID)
	if p == nil {
		fmt.Fprintln(os.Stderr, "unknown property", propID)
		return 2
	}
	f, err := os.OpenFile(out, os.O_WRONLY|os.O_CREATE|os.O_APPEND, 0644)
	if err != nil {
		fmt.Fprintln(os.Stderr, err)
		return 2
	}
	defer f.Close()
	for i := from; i < to; i++ {
		fmt.Fprintf(f, "{\"start\":%d}\n", i)
		fmt.Fprintf(os.Stderr, "CASE-START %s %d\n", propID, i)
		done := make(chan Result, 1)
		go func() { done <- runCase(p, tier, seed, i) }()
		var res Result
		to := p.CaseTimeout
		if to == 0 {
			to = 5 * time.Minute
		}
		select {
		case res = <-done:
		case <-time.After(to):
			// the watchdog is wall-clock and therefore never a verdict: dump
			// goroutines for the log and report inconclusive
			fmt.Fprintf(os.Stderr, "WATCHDOG case %d\n", i)
			buf := make([]byte, 1<<20)
			n := runtimeStack(buf)
			os.Stderr.Write(buf[:n])
			res = Result{Case: i, Verdict: Inconclusive, Detail: "watchdog fired (wall-clock; not a verdict)", Evals: 1}
			b, _ := json.Marshal(res)
			f.Write(append(b, '\n'))
			return 3 // process state unknown: let the parent start a fresh child
		}
		b, err := json.Marshal(res)
		if err != nil {
			b, _ = json.Marshal(Result{Case: i, Verdict: Inconclusive, Detail: "result not serialisable: " + err.Error(), Evals: 1})
		}
		f.Write(append(b, '\n'))
	}
	return 0
}

// ---------------------------------------------------------------------------
// parent side

type Finding struct {
	Property string `json:"property"`
	Status   string `json:"status"` // open | fixed
	Match    string `json:"match"`  // regexp on the violation kind (open findings only)
	What     string `json:"what"`
	Commit   string `json:"commit,omitempty"`
}

func loadFindings() []Finding {
	var doc struct {
		Findings []Finding `json:"findings"`
	}
	b, err := os.ReadFile(filepath.Join(VerifDir(), "known_findings.json"))
	if err != nil {
		return nil
	}
	json.Unmarshal(b, &doc)
	return doc.Findings
}

var nitroFrame = regexp.MustCompile(`github\.com/couchbase/nitro(/\w+)*\.(\(\*?\w+\)\.)?\w+(\.func\d+)*`)

// classifyCrash inspects a dead child's log.
func classifyCrash(log string) (kind, detail string, isNitro bool) {
	lines := strings.Split(log, "\n")
	first := ""
	for i, l := range lines {
		if strings.HasPrefix(l, "panic:") || strings.HasPrefix(l, "fatal error:") || strings.HasPrefix(l, "unexpected fault address") ||
			strings.Contains(l, "ERROR: AddressSanitizer") || strings.HasPrefix(l, "SIGSEGV") {
			first = l
			// find the crashing goroutine's first nitro frame after this line
			for j := i; j < len(lines) && j < i+400; j++ {
				if m := nitroFrame.FindString(lines[j]); m != "" {
					isNitro = true
					kind = "crash@" + strings.TrimPrefix(m, "github.com/couchbase/nitro")
					break
				}
				if strings.HasPrefix(lines[j], "goroutine ") && j > i+3 && strings.Contains(lines[j], "[") && !strings.Contains(lines[j], "running") {
					// next goroutine begins: stop looking
					if j > i+6 {
						break
					}
				}
			}
			break
		}
	}
	if first == "" {
		return "crash@unknown", "child died without a recognisable panic", false
	}
	fault := ""
	for _, l := range lines {
		if strings.HasPrefix(l, "[signal ") {
			fault = " " + l
			break
		}
	}
	if !isNitro {
		kind = "crash@harness"
	}
	return kind, first + fault, isNitro
}

type Options struct {
	Prop  string
	Tier  string
	Seed  int64
	Procs int
	Only  int // run only this case (replay), -1 = all
}

func selfExe() string {
	e, err := os.Executable()
	if err != nil {
		return os.Args[0]
	}
	return e
}

// CheckMain runs a whole property check and returns the process exit code.
func CheckMain(o Options) int {
	p := Get(o.Prop)
	if p == nil {
		fmt.Fprintln(os.Stderr, "unknown property", o.Prop)
		return 2
	}
	start := time.Now()
	n := p.Cases(o.Tier)
	batch := 16
	if p.Batch != nil {
		batch = p.Batch(o.Tier)
	}
	procs := o.Procs
	if procs == 0 {
		procs = p.Procs
	}
	if procs == 0 {
		procs = 8
	}
	// one scratch directory per run (concurrent runs of the same check must not disturb each other)
	if old, _ := filepath.Glob(filepath.Join(VerifDir(), "work", p.ID+"-*")); len(old) > 4 {
		for _, o := range old {
			os.RemoveAll(o)
		}
	}
	work := filepath.Join(VerifDir(), "work", fmt.Sprintf("%s-%d", p.ID, os.Getpid()))
	os.RemoveAll(work)
	os.MkdirAll(work, 0755)
	// the children's temporary directories live under the run's scratch directory and are removed
	// with it, also when a child crashed or was killed before it could clean up
	ctmp := filepath.Join(work, "tmp")
	os.MkdirAll(ctmp, 0755)
	os.MkdirAll(filepath.Join(VerifDir(), "replays"), 0755)
	os.MkdirAll(filepath.Join(VerifDir(), "evidence"), 0755)

	type job struct{ from, to int }
	var jobs []job
	if o.Only >= 0 {
		jobs = append(jobs, job{o.Only, o.Only + 1})
		n = 1
	} else {
		for a := 0; a < n; a += batch {
			b := a + batch
			if b > n {
				b = n
			}
			jobs = append(jobs, job{a, b})
		}
	}
	var mu sync.Mutex
	var results []Result
	jobc := make(chan job)
	var wg sync.WaitGroup
	exe := selfExe()
	for w := 0; w < procs; w++ {
		wg.Add(1)
		go func() {
			defer wg.Done()
			for j := range jobc {
				from := j.from
				attempt := 0
				for from < j.to {
					attempt++
					tag := fmt.Sprintf("%d-%d.%d", j.from, j.to, attempt)
					out := filepath.Join(work, "child-"+tag+".jsonl")
					logp := filepath.Join(work, "child-"+tag+".log")
					lf, _ := os.Create(logp)
					cmd := exec.Command(exe, "child", p.ID, "-tier", o.Tier, "-seed", strconv.FormatInt(o.Seed, 10),
						"-from", strconv.Itoa(from), "-to", strconv.Itoa(j.to), "-out", out)
					cmd.Stdout = lf
					cmd.Stderr = lf
					cmd.Env = append(os.Environ(), "GOTRACEBACK=all", "TMPDIR="+ctmp)
					err := cmd.Run()
					lf.Close()
					rs, lastStart := readChildOut(out)
					mu.Lock()
					results = append(results, rs...)
					mu.Unlock()
					doneUpTo := from
					for _, r := range rs {
						if r.Case+1 > doneUpTo {
							doneUpTo = r.Case + 1
						}
					}
					if err == nil {
						os.Remove(logp)
						break
					}
					// the child died
					if lastStart >= doneUpTo {
						// case lastStart started but produced no result: crash
						lb, _ := os.ReadFile(logp)
						kind, detail, isNitro := classifyCrash(string(lb))
						r := Result{Case: lastStart, Evals: 1}
						if isNitro {
							r.Verdict = Violated
							r.Kind = kind
							r.Detail = detail
							keep := filepath.Join(VerifDir(), "replays", fmt.Sprintf("%s-crash-%d.log", p.ID, lastStart))
							os.WriteFile(keep, tailBytes(lb, 200000), 0644)
							r.Witness = map[string]string{"crash_log": keep}
						} else {
							r.Verdict = Inconclusive
							r.Detail = "child died outside nitro frames: " + detail
							if ee, ok := err.(*exec.ExitError); ok {
								if ws, ok := ee.Sys().(syscall.WaitStatus); ok && ws.Signaled() {
									r.Detail += " signal=" + ws.Signal().String()
								}
							}
						}
						mu.Lock()
						results = append(results, r)
						mu.Unlock()
						doneUpTo = lastStart + 1
					} else if doneUpTo == from {
						// no progress at all (e.g. watchdog exit right after result): avoid looping
						doneUpTo = from + 1
					}
					from = doneUpTo
					if attempt > (j.to-j.from)+2 {
						break
					}
				}
			}
		}()
	}
	for _, j := range jobs {
		jobc <- j
	}
	close(jobc)
	wg.Wait()

	sort.Slice(results, func(i, j int) bool { return results[i].Case < results[j].Case })
	os.RemoveAll(ctmp)
	return finish(p, o, n, results, time.Since(start))
}

func tailBytes(b []byte, n int) []byte {
	if len(b) <= n {
		return b
	}
	return append(append([]byte{}, b[:n/2]...), b[len(b)-n/2:]...)
}

func readChildOut(path string) (rs []Result, lastStart int) {
	lastStart = -1
	f, err := os.Open(path)
	if err != nil {
		return
	}
	defer f.Close()
	sc := bufio.NewScanner(f)
	sc.Buffer(make([]byte, 1<<20), 1<<28)
	for sc.Scan() {
		line := sc.Bytes()
		var st struct {
			Start *int `json:"start"`
		}
		if json.Unmarshal(line, &st) == nil && st.Start != nil {
			lastStart = *st.Start
			continue
		}
		var r Result
		if json.Unmarshal(line, &r) == nil && r.Verdict != "" {
			rs = append(rs, r)
		}
	}
	return
}

func finish(p *Prop, o Options, n int, results []Result, wall time.Duration) int {
	findings := loadFindings()
	sigs := map[string]bool{}
	counters := map[string]int64{}
	var samples []interface{}
	var evals int64
	nInc, nViol, nKnown := 0, 0, 0
	var incDetails []string
	type viol struct {
		r      Result
		replay string
	}
	var viols []viol
	knownPrinted := map[string]bool{}
	seen := map[int]bool{}
	for _, r := range results {
		seen[r.Case] = true
		evals += r.Evals
		for _, s := range r.Sigs {
			sigs[s] = true
		}
		for k, v := range r.Counters {
			counters[k] += v
		}
		if r.Sample != nil && len(samples) < 3 {
			samples = append(samples, r.Sample)
		}
		all := append([]Result{r}, r.Extra...)
		for _, v := range all {
			switch v.Verdict {
			case Inconclusive:
				nInc++
				if len(incDetails) < 5 {
					incDetails = append(incDetails, fmt.Sprintf("case %d: %s", v.Case, v.Detail))
				}
			case Violated:
				known := false
				for _, f := range findings {
					if f.Property == p.ID && f.Status == "open" && f.Match != "" {
						if ok, _ := regexp.MatchString(f.Match, v.Kind); ok {
							known = true
							if !knownPrinted[f.Match] {
								knownPrinted[f.Match] = true
								fmt.Printf("KNOWN-FINDING: property=%s %s (kind=%s, first seen in case %d)\n", p.ID, f.What, v.Kind, v.Case)
							}
							break
						}
					}
				}
				if known {
					nKnown++
					continue
				}
				nViol++
				rp := filepath.Join(VerifDir(), "replays", fmt.Sprintf("%s-%d.json", p.ID, len(viols)))
				doc := map[string]interface{}{"property": p.ID, "tier": o.Tier, "seed": o.Seed, "case": v.Case,
					"kind": v.Kind, "detail": v.Detail, "witness": v.Witness,
					"replay": fmt.Sprintf("VERIF_SEED=%d %s/bin/nv check %s -tier %s -case %d", o.Seed, VerifDir(), p.ID, o.Tier, v.Case)}
				b, _ := json.MarshalIndent(doc, "", " ")
				os.WriteFile(rp, b, 0644)
				if len(viols) < 20 {
					viols = append(viols, viol{v, rp})
				}
			}
		}
	}
	missing := 0
	if o.Only < 0 {
		for i := 0; i < n; i++ {
			if !seen[i] {
				missing++
			}
		}
	}
	nInc += missing

	cov := map[string]interface{}{
		"evaluations":         evals,
		"distinct_nontrivial": len(sigs),
		"rule":                p.Rule,
		"samples":             samples,
		"cases":               n,
		"cases_inconclusive":  nInc,
		"known_findings_hit":  nKnown,
		"counters":            counters,
	}
	if len(incDetails) > 0 {
		cov["inconclusive_details"] = incDetails
	}
	if p.Exhaustive != nil && p.Exhaustive(o.Tier) && nInc == 0 {
		cov["exhaustive"] = true
	}
	if len(samples) == 0 {
		cov["samples"] = []interface{}{"no case produced a sample"}
	}
	if p.PostAggregate != nil {
		p.PostAggregate(o.Tier, results, cov)
	}
	ev := map[string]interface{}{
		"property_id": p.ID,
		"tier":        o.Tier,
		"seed":        o.Seed,
		"level":       p.Level,
		"coverage":    cov,
		"assumptions": p.Assumptions,
		"wall_s":      wall.Seconds(),
		"violations":  nViol,
		"technique":   p.Technique,
	}
	b, _ := json.MarshalIndent(ev, "", " ")
	if o.Only < 0 {
		os.WriteFile(filepath.Join(VerifDir(), "evidence", p.ID+".json"), append(b, '\n'), 0644)
	}

	fmt.Printf("%s tier=%s seed=%d cases=%d evaluations=%d distinct=%d violations=%d known=%d inconclusive=%d wall=%.1fs\n",
		p.ID, o.Tier, o.Seed, n, evals, len(sigs), nViol, nKnown, nInc, wall.Seconds())
	for _, v := range viols {
		fmt.Printf("  case %d kind=%s: %s\n", v.r.Case, v.r.Kind, trunc(v.r.Detail, 600))
		fmt.Printf("VIOLATION property=%s replay=%s\n", p.ID, v.replay)
	}
	if nViol > 0 {
		return 1
	}
	min := p.MinSigs
	if min < 2 {
		min = 2
	}
	if o.Only < 0 && (len(sigs) < min || nInc*4 > n) {
		fmt.Printf("INCONCLUSIVE property=%s distinct=%d (min %d) inconclusive_cases=%d/%d %v\n", p.ID, len(sigs), min, nInc, n, incDetails)
		return 2
	}
	return 0
}

func trunc(s string, n int) string {
	if len(s) > n {
		return s[:n] + "…"
	}
	return s
}
