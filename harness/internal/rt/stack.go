package rt

import "runtime"

func runtimeStack(buf []byte) int { return runtime.Stack(buf, true) }
