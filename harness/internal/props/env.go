// Package props holds one scenario file per property plus shared helpers.
package props

import (
	"bytes"
	"fmt"
	"math/rand"
	"runtime"
	"sort"
	"strings"
	"sync/atomic"
	"time"
	"unsafe"

	"github.com/couchbase/nitro"
	"github.com/couchbase/nitro/skiplist"

	"nitroverif/internal/galloc"
)

// logical clock shared by all recorders in the process
var lclock uint64

func Tick() int64 { return int64(atomic.AddUint64(&lclock, 1)) }

// ---------------------------------------------------------------------------
// database wrapper

type DB struct {
	N     *nitro.Nitro
	A     *galloc.Alloc // nil in Go-managed mode
	KV    bool          // key-only comparator over KV items
	Rev   bool          // custom comparator: descending byte order over the whole item
	Delta bool
	cfg   nitro.Config
	// rawStatsExpected: the caller guarantees that no write happened since the last NewSnapshot
	rawStatsExpected bool
}

type DBOpt struct {
	Mem   string // "go" | "poison" | "pageguard"
	KV    bool
	Rev   bool
	Delta bool
	Alloc *galloc.Alloc // share an allocator (restore into fresh instance)
}

func revCompare(a, b []byte) int { return bytes.Compare(b, a) }

// KeyLess orders keys the way the database's comparator does.
func (d *DB) KeyLess(a, b string) bool {
	if d.Rev {
		return a > b
	}
	return a < b
}

// NewModel returns a reference set ordered like the database.
func (d *DB) NewModel() *Model {
	m := NewModel()
	m.less = d.KeyLess
	return m
}

// InsCmp orders raw item pointers as nitro's insert comparator does: (key, bornSn).
func (d *DB) InsCmp() func(a, b unsafe.Pointer) int {
	return func(a, b unsafe.Pointer) int {
		ba, _, da := nitro.VerifItemMeta(a)
		bb, _, db := nitro.VerifItemMeta(b)
		var v int
		switch {
		case d.KV:
			v = nitro.CompareKV(da, db)
		case d.Rev:
			v = revCompare(da, db)
		default:
			v = bytes.Compare(da, db)
		}
		if v == 0 {
			v = int(ba) - int(bb)
		}
		return v
	}
}

func OpenDB(o DBOpt) *DB {
	cfg := nitro.DefaultConfig()
	d := &DB{KV: o.KV, Rev: o.Rev && !o.KV, Delta: o.Delta}
	if o.KV {
		cfg.SetKeyComparator(nitro.CompareKV)
	} else if o.Rev {
		cfg.SetKeyComparator(revCompare)
	}
	switch o.Mem {
	case "poison", "pageguard":
		a := o.Alloc
		if a == nil {
			m := galloc.Poison
			if o.Mem == "pageguard" {
				m = galloc.PageGuard
			}
			a = galloc.New(m)
		}
		d.A = a
		cfg.UseMemoryMgmt(a.Malloc, a.Free)
	}
	if o.Delta {
		cfg.UseDeltaInterleaving()
	}
	d.cfg = cfg
	d.N = nitro.NewWithConfig(cfg)
	return d
}

// Fresh returns a new empty instance with the same configuration (and the
// same allocator, so the live-set spans both).
func (d *DB) Fresh() *DB {
	n := &DB{KV: d.KV, Rev: d.Rev, Delta: d.Delta, A: d.A, cfg: d.cfg}
	n.N = nitro.NewWithConfig(d.cfg)
	return n
}

// Key/Item construction. A key id maps to a deterministic key string; with the
// default comparator the item is the key itself, with the KV comparator the
// item is KVToBytes(key, value) and values differ per Put.
func KeyBytes(id int) []byte {
	// varying lengths, embedded zero bytes for some ids
	base := fmt.Sprintf("k%05d", id)
	switch id % 5 {
	case 1:
		base += strings.Repeat("x", id%17)
	case 2:
		base += "\x00\x00"
	case 3:
		base += strings.Repeat("\xff", 1+id%3)
	}
	return []byte(base)
}

func (d *DB) Item(id int, val string) []byte {
	k := KeyBytes(id)
	if d.KV {
		return nitro.KVToBytes(k, []byte(val))
	}
	return k
}

func (d *DB) KeyOf(item []byte) string {
	if d.KV {
		k, _ := nitro.KVFromBytes(item)
		return string(k)
	}
	return string(item)
}

// ---------------------------------------------------------------------------
// reference model

type Entry struct {
	Key  string
	Item []byte
}

type Model struct {
	live map[string][]byte
	less func(a, b string) bool // nil = ascending byte order
}

func NewModel() *Model { return &Model{live: map[string][]byte{}} }

func (m *Model) Put(key string, item []byte) bool {
	if _, ok := m.live[key]; ok {
		return false
	}
	m.live[key] = append([]byte(nil), item...)
	return true
}
func (m *Model) Delete(key string) bool {
	if _, ok := m.live[key]; !ok {
		return false
	}
	delete(m.live, key)
	return true
}
func (m *Model) Has(key string) bool   { _, ok := m.live[key]; return ok }
func (m *Model) Get(key string) []byte { return m.live[key] }
func (m *Model) Len() int              { return len(m.live) }
func (m *Model) Snapshot() []Entry {
	out := make([]Entry, 0, len(m.live))
	for k, v := range m.live {
		out = append(out, Entry{k, v})
	}
	less := m.less
	if less == nil {
		less = func(a, b string) bool { return a < b }
	}
	sort.Slice(out, func(i, j int) bool { return less(out[i].Key, out[j].Key) })
	return out
}
func (m *Model) Clone() *Model {
	c := NewModel()
	c.less = m.less
	for k, v := range m.live {
		c.live[k] = v
	}
	return c
}

// ---------------------------------------------------------------------------
// scans

// Scan reads a whole snapshot through an iterator with the given refresh rate.
func Scan(s *nitro.Snapshot, refresh int) ([][]byte, bool) {
	it := s.NewIterator()
	if it == nil {
		return nil, false
	}
	defer it.Close()
	if refresh > 0 {
		it.SetRefreshRate(refresh)
	}
	var out [][]byte
	for it.SeekFirst(); it.Valid(); it.Next() {
		out = append(out, append([]byte(nil), it.Get()...))
		if len(out) > 10_000_000 {
			break
		}
	}
	return out, true
}

func fmtItem(b []byte) string {
	if len(b) > 40 {
		return fmt.Sprintf("%q…(%d)", b[:40], len(b))
	}
	return fmt.Sprintf("%q", b)
}

// DiffScan compares a scan result with the expected entries; "" when equal.
func DiffScan(got [][]byte, want []Entry) string {
	n := len(got)
	if len(want) < n {
		n = len(want)
	}
	for i := 0; i < n; i++ {
		if !bytes.Equal(got[i], want[i].Item) {
			ctx := ""
			if i > 0 {
				ctx = " prev=" + fmtItem(got[i-1])
			}
			return fmt.Sprintf("position %d: got %s want %s%s (got %d items, want %d)", i, fmtItem(got[i]), fmtItem(want[i].Item), ctx, len(got), len(want))
		}
	}
	if len(got) != len(want) {
		if len(got) > len(want) {
			return fmt.Sprintf("%d extra items, first extra %s (want %d items)", len(got)-len(want), fmtItem(got[len(want)]), len(want))
		}
		return fmt.Sprintf("%d items missing, first missing %s (got %d items)", len(want)-len(got), fmtItem(want[len(got)].Item), len(got))
	}
	return ""
}

func itemsToStrings(got [][]byte, max int) []string {
	var out []string
	for i, g := range got {
		if i >= max {
			out = append(out, "…")
			break
		}
		out = append(out, fmtItem(g))
	}
	return out
}

// ---------------------------------------------------------------------------
// quiescence probe

// Quiescent reports whether, in one all-goroutine stack sample, every nitro
// collection worker is parked in select and every free worker in chan receive,
// and the queues of the given instances are empty.
func quiescentOnce(dbs []*nitro.Nitro) bool {
	for _, d := range dbs {
		g, f := d.VerifQueueLens()
		if g != 0 || f != 0 || d.VerifIsGCRunning() {
			return false
		}
	}
	buf := make([]byte, 1<<20)
	for {
		n := runtime.Stack(buf, true)
		if n < len(buf) {
			buf = buf[:n]
			break
		}
		buf = make([]byte, 2*len(buf))
	}
	for _, g := range strings.Split(string(buf), "\n\n") {
		nl := strings.IndexByte(g, '\n')
		if nl < 0 {
			continue
		}
		hdr := g[:nl]
		if strings.Contains(g, "nitro.(*Nitro).collectionWorker") {
			if !strings.Contains(hdr, "[select") {
				return false
			}
		} else if strings.Contains(g, "nitro.(*Nitro).freeWorker") {
			if !strings.Contains(hdr, "[chan receive") {
				return false
			}
		}
	}
	for _, d := range dbs {
		g, f := d.VerifQueueLens()
		if g != 0 || f != 0 || d.VerifIsGCRunning() {
			return false
		}
	}
	return true
}

// Quiesce waits (yielding) until the probe holds; false = gave up (inconclusive).
func Quiesce(dbs ...*nitro.Nitro) bool {
	for i := 0; i < 20000; i++ {
		if quiescentOnce(dbs) {
			return true
		}
		if i < 50 {
			runtime.Gosched()
		} else {
			time.Sleep(200 * time.Microsecond)
		}
	}
	return false
}

// ---------------------------------------------------------------------------
// structure walker (C14, C04, C06)

type WalkReport struct {
	Level0Linked   int // nodes reachable on level 0 (marked or not)
	Level0Marked   int
	Live           int // unmarked nodes on level 0
	Bytes          int64
	PerLevel       [skiplist.MaxLevel + 1]int64 // by node height, over level-0 linked nodes
	MaxLevelSeen   int
	UpperMarked    int // marked nodes still linked at some level > 0
	Problems       []string
	NotLive        []string
	Nodes          []*skiplist.Node // level-0 linked nodes in order
	ReachableUpper map[*skiplist.Node]bool
}

// Walk walks every level of s. cmp orders items (strictly increasing expected
// among unmarked nodes). sizeOf gives the bytes accounted per node.
func Walk(s *skiplist.Skiplist, cmp func(a, b unsafe.Pointer) int, itemSize func(unsafe.Pointer) int, bound int) *WalkReport {
	return WalkLive(s, cmp, itemSize, bound, nil)
}

// WalkLive is Walk with a liveness oracle: a reachable node that is not a live
// allocator block is reported (NotLive) instead of being dereferenced.
func WalkLive(s *skiplist.Skiplist, cmp func(a, b unsafe.Pointer) int, itemSize func(unsafe.Pointer) int, bound int, live func(unsafe.Pointer) bool) *WalkReport {
	r := &WalkReport{ReachableUpper: map[*skiplist.Node]bool{}}
	head, tail := s.HeadNode(), s.TailNode()
	var below map[*skiplist.Node]int // position index of unmarked nodes at level below
	addp := func(f string, a ...interface{}) {
		if len(r.Problems) < 20 {
			r.Problems = append(r.Problems, fmt.Sprintf(f, a...))
		}
	}
	for lvl := 0; lvl <= skiplist.MaxLevel; lvl++ {
		cur := make(map[*skiplist.Node]int)
		n, _ := head.VerifNext(lvl)
		steps := 0
		var prev *skiplist.Node
		lastPos := -1
		for n != tail {
			if n == nil {
				addp("level %d: nil successor before reaching tail after %d steps", lvl, steps)
				break
			}
			if live != nil && !live(unsafe.Pointer(n)) {
				r.NotLive = append(r.NotLive, fmt.Sprintf("level %d: node %p reachable after %d steps is not a live allocator block (released while still linked)", lvl, n, steps))
				break
			}
			steps++
			if steps > bound {
				addp("level %d: more than %d steps: cycle or runaway chain", lvl, bound)
				break
			}
			next, marked := n.VerifNext(lvl)
			if n.Level() < lvl {
				addp("level %d: node of height %d linked above its height", lvl, n.Level())
			}
			if lvl == 0 {
				r.Level0Linked++
				r.Nodes = append(r.Nodes, n)
				r.PerLevel[n.Level()]++
				r.Bytes += int64(itemSize(n.Item()) + n.Size())
				if marked {
					r.Level0Marked++
				}
			} else {
				r.ReachableUpper[n] = true
				if marked {
					r.UpperMarked++
				}
			}
			if !marked {
				if prev != nil && cmp(prev.Item(), n.Item()) >= 0 {
					addp("level %d: order violated at step %d", lvl, steps)
				}
				prev = n
				cur[n] = steps
				if lvl > 0 {
					pos, ok := below[n]
					if !ok {
						addp("level %d: unmarked node at step %d is not an unmarked node of level %d (sub-sequence violated)", lvl, steps, lvl-1)
					} else {
						if pos <= lastPos {
							addp("level %d: nodes appear in a different order than on level %d", lvl, lvl-1)
						}
						lastPos = pos
					}
				}
			}
			n = next
		}
		if lvl == 0 {
			r.Live = len(cur)
		}
		if steps > 0 {
			r.MaxLevelSeen = lvl
		}
		// every unmarked node of the level below whose height reaches this level must be linked here
		if lvl > 0 {
			for nd := range below {
				if nd.Level() >= lvl {
					if _, ok := cur[nd]; !ok {
						addp("level %d: live node of height %d is not linked at this level", lvl, nd.Level())
						break
					}
				}
			}
		}
		below = cur
	}
	// searches, deletes and the unlink pass start at the list's level: a node linked above it is
	// invisible to them (a later delete leaves it linked there)
	if top := s.VerifLevel(); r.MaxLevelSeen > top {
		addp("nodes are linked at level %d but the list's level is %d: searches and deletes start below them", r.MaxLevelSeen, top)
	}
	return r
}

// nitro item comparator on raw item pointers: (key, bornSn)
func nitroInsCmp(kv bool) func(a, b unsafe.Pointer) int {
	return func(a, b unsafe.Pointer) int {
		ba, _, da := nitro.VerifItemMeta(a)
		bb, _, db := nitro.VerifItemMeta(b)
		var v int
		if kv {
			v = nitro.CompareKV(da, db)
		} else {
			v = bytes.Compare(da, db)
		}
		if v == 0 {
			v = int(ba) - int(bb)
		}
		return v
	}
}

// ReconcileStats compares a walk with the statistics of a quiescent nitro
// instance. Returns problems.
func ReconcileStats(d *DB, w *WalkReport) []string {
	var ps []string
	st := d.N.VerifStore().GetStats()
	// aggregate the way DumpStats does: parse from the string to stay on the public API for the numbers
	ds := d.N.DumpStats()
	nodeCount := parseStat(ds, "node_count")
	soft := parseStat(ds, "soft_deletes")
	mem := parseStat(ds, "memory_used")
	if int64(w.Level0Linked) != nodeCount {
		ps = append(ps, fmt.Sprintf("node_count=%d but %d nodes are linked on level 0", nodeCount, w.Level0Linked))
	}
	if int64(w.Level0Marked) != soft {
		ps = append(ps, fmt.Sprintf("soft_deletes=%d but %d marked nodes are linked on level 0", soft, w.Level0Marked))
	}
	if w.Bytes != mem {
		ps = append(ps, fmt.Sprintf("memory_used=%d but walk measures %d bytes", mem, w.Bytes))
	}
	for l := 0; l <= skiplist.MaxLevel; l++ {
		c := parseStat(ds, fmt.Sprintf("level%d", l))
		if c != w.PerLevel[l] {
			ps = append(ps, fmt.Sprintf("level_node_distribution[level%d]=%d but walk counts %d", l, c, w.PerLevel[l]))
			break
		}
	}
	// The skiplist's own statistics (writer-local parts are merged at snapshot creation and by the
	// workers after each batch): at a checkpoint taken after NewSnapshot with no write since, they must
	// agree with the walk as well.
	if d.rawStatsExpected {
		if st.NodeCount != w.Level0Linked {
			ps = append(ps, fmt.Sprintf("Skiplist.GetStats().NodeCount=%d (merged statistics of the store) but %d nodes are linked on level 0", st.NodeCount, w.Level0Linked))
		}
		if m := d.N.VerifStore().MemoryInUse(); m != w.Bytes {
			ps = append(ps, fmt.Sprintf("Skiplist.MemoryInUse()=%d (merged statistics of the store) but walk measures %d bytes", m, w.Bytes))
		}
	}
	return ps
}

func parseStat(s, name string) int64 {
	i := strings.Index(s, "\""+name+"\":")
	if i < 0 {
		return -1 << 60
	}
	rest := strings.TrimLeft(s[i+len(name)+3:], " ")
	var v int64
	fmt.Sscanf(rest, "%d", &v)
	return v
}

// ---------------------------------------------------------------------------
// misc

func pick(r *rand.Rand, xs ...int) int { return xs[r.Intn(len(xs))] }

func memModes() []string { return []string{"go", "poison", "pageguard"} }

// yielder returns a perturbation function driven by its own PRNG stream.
func yielder(seed int64, intensity int) func() {
	var ctr uint64
	return func() {
		c := atomic.AddUint64(&ctr, 1)
		h := (uint64(seed) + c) * 0x9E3779B97F4A7C15
		h ^= h >> 29
		switch {
		case intensity <= 0:
		case h%uint64(64/intensity+1) == 0:
			runtime.Gosched()
		case h%uint64(4096/intensity+1) == 1:
			time.Sleep(time.Duration(10+h%200) * time.Microsecond)
		}
	}
}

func unsafePtr(itm *nitro.Item) unsafe.Pointer { return unsafe.Pointer(itm) }

// loaderSample inspects one all-goroutine stack sample and describes every goroutine
// that belongs to a LoadFromDisk call (the caller, its func literals, goroutines it
// created — including ones not scheduled yet, whose stack is only the go-wrapper and
// the "created by" line): sig is the sorted list of (goroutine id, wait state);
// allParked is true iff every one of them is parked on a synchronisation primitive
// (channel send/receive, select, semaphore, mutex, condition variable) — none running,
// runnable, in a system call, waiting for I/O or sleeping. The channels, wait group
// and mutexes LoadFromDisk uses are local to the call, so if all its goroutines are
// parked on them nobody can ever wake one of them: the call can never return.
func loaderSample() (sig string, allParked bool, n int) {
	return callSample("nitro.(*Nitro).LoadFromDisk")
}

// callSample is loaderSample for an arbitrary function name (its goroutines = those whose
// stack mentions the name, including func literals and goroutines created by it).
func callSample(fn string) (sig string, allParked bool, n int) {
	buf := make([]byte, 1<<20)
	for {
		k := runtime.Stack(buf, true)
		if k < len(buf) {
			buf = buf[:k]
			break
		}
		buf = make([]byte, 2*len(buf))
	}
	var parts []string
	allParked = true
	for _, g := range strings.Split(string(buf), "\n\n") {
		nl := strings.IndexByte(g, '\n')
		if nl < 0 || !strings.Contains(g, fn) {
			continue
		}
		hdr := g[:nl] // goroutine 12 [chan send, 2 minutes]:
		a, b := strings.IndexByte(hdr, '['), strings.IndexByte(hdr, ']')
		if a < 0 || b < a {
			continue
		}
		state := hdr[a+1 : b]
		if c := strings.IndexByte(state, ','); c >= 0 {
			state = state[:c]
		}
		n++
		parts = append(parts, strings.TrimSpace(hdr[:a])+" "+state)
		switch {
		case strings.HasPrefix(state, "chan send"), strings.HasPrefix(state, "chan receive"), strings.HasPrefix(state, "select"),
			strings.HasPrefix(state, "semacquire"), strings.HasPrefix(state, "sync."):
		default:
			allParked = false
		}
	}
	sort.Strings(parts)
	return strings.Join(parts, ";"), allParked && n > 0, n
}

// linkedAt searches every level of s (from the head, through marked nodes too)
// for node p; it returns the level at which p is still linked, or -1.
func linkedAt(s *skiplist.Skiplist, p unsafe.Pointer, bound int) int {
	// the monitor is itself an accessor of the structure: hold a token while walking
	tok := s.GetAccesBarrier().Acquire()
	defer s.GetAccesBarrier().Release(tok)
	head, tail := s.HeadNode(), s.TailNode()
	// every level, not only those up to the list's current level: a node linked above it is
	// exactly what the searches of the code under test cannot see
	for lvl := skiplist.MaxLevel; lvl >= 0; lvl-- {
		n, _ := head.VerifNext(lvl)
		for steps := 0; n != nil && n != tail && steps < bound; steps++ {
			if unsafe.Pointer(n) == p {
				return lvl
			}
			n, _ = n.VerifNext(lvl)
		}
	}
	return -1
}

func yieldNow() { runtime.Gosched() }

// perturber returns a hook-point perturbation with a per-case focus (PCT-like): two
// hook-point ids, chosen from the seed, get long delays (a goroutine arriving there is
// held for 20-300 µs with probability 1/3), all other points only the light yielding
// of yielder. This opens long windows at specific points instead of jittering
// everything equally. Odd seeds keep the uniform behaviour.
func perturber(seed int64, intensity int) func(id int) {
	y := yielder(seed, intensity)
	if intensity <= 0 || seed%2 == 1 {
		return func(int) { y() }
	}
	h := uint64(seed) * 0x9E3779B97F4A7C15
	// point ids: skiplist 1..21, nitro 101..119
	pick := func(x uint64) int {
		v := int(x % 40)
		if v < 21 {
			return v + 1
		}
		return 101 + (v - 21)
	}
	f1, f2 := pick(h>>8), pick(h>>24)
	var ctr uint64
	return func(id int) {
		if id == f1 || id == f2 {
			c := atomic.AddUint64(&ctr, 1)
			z := (uint64(seed) ^ c) * 0xD6E8FEB86659FD93
			z ^= z >> 32
			if z%3 == 0 {
				time.Sleep(time.Duration(20+z%280) * time.Microsecond)
				return
			}
		}
		y()
	}
}

// runWithDeadlockProbe runs f in its own goroutine. It returns done=false, stuck=true when every
// goroutine whose stack mentions fn is parked on a synchronisation primitive, identically in four
// consecutive samples (a deadlock inside the call); done=false, stuck=false when the sampling
// budget ran out without a decision (inconclusive).
func runWithDeadlockProbe(fn string, f func()) (done, stuck bool) {
	ch := make(chan struct{})
	go func() { defer close(ch); f() }()
	wait := 250 * time.Millisecond
	lastSig, same := "", 0
	for i := 0; i < 300; i++ {
		select {
		case <-ch:
			return true, false
		case <-time.After(wait):
			sig, parked, _ := callSample(fn)
			if parked && sig == lastSig {
				same++
				if same >= 3 {
					return false, true
				}
			} else {
				same = 0
			}
			lastSig = sig
			if wait < 2*time.Second {
				wait += wait / 2
			}
		}
	}
	return false, false
}

// goid returns the id of the calling goroutine (parsed from its stack header).
func goid() int64 {
	var buf [64]byte
	n := runtime.Stack(buf[:], false)
	var id int64
	for _, ch := range buf[len("goroutine "):n] {
		if ch < '0' || ch > '9' {
			break
		}
		id = id*10 + int64(ch-'0')
	}
	return id
}
