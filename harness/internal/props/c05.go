package props

import (
	"fmt"
	"math/rand"
	"path/filepath"
	"runtime"
	"sync"
	"sync/atomic"
	"time"

	"github.com/couchbase/nitro"

	"nitroverif/internal/rt"
)

// C05 — backup/restore exactness (with concurrent mutation, churn and GC).

type c05cfg struct {
	Mem       string
	KV        bool
	Rev       bool
	Delta     bool
	Keys      int
	Epochs    int
	StoreConc int
	LoadConc  int
	Older     bool // store an older open snapshot instead of the latest
	Churn     bool // writers + snapshot churn + GC run during the backup
	Stall     int  // itmCallback yields every Stall items (0 = never)
	Block     int
}

func runC05(c *rt.C) {
	if c.Index%24 == 23 {
		c05ManyWriters(c)
		return
	}
	r := c.Rng
	cfg := c05cfg{
		Mem:       memModes()[c.Index%3],
		KV:        (c.Index/3)%3 == 1,
		Rev:       (c.Index/3)%3 == 2,
		Delta:     (c.Index/9)%2 == 1 || c.Index%2 == 1 && c.Index%9 > 5,
		Keys:      pick(r, 0, 1, 8, 60, 400, 3000),
		Epochs:    2 + r.Intn(6),
		StoreConc: pick(r, 1, 2, 4, 16),
		LoadConc:  pick(r, 1, 2, 4, 16),
		Older:     r.Intn(3) == 0,
		Churn:     r.Intn(3) > 0,
		Stall:     pick(r, 0, 1, 7, 50),
		Block:     pick(r, 64, 4096, 512*1024),
	}
	if c.Tier == "thorough" && c.Index%16 == 15 {
		cfg.Keys = 20000
	}
	if cfg.Mem == "pageguard" && cfg.Keys > 400 {
		cfg.Keys = 400
	}
	nitro.DiskBlockSize = cfg.Block
	defer func() { nitro.DiskBlockSize = 512 * 1024 }()
	db := OpenDB(DBOpt{Mem: cfg.Mem, KV: cfg.KV, Rev: cfg.Rev, Delta: cfg.Delta})
	nk := cfg.Keys
	if nk == 0 {
		nk = 1
	}
	h := BuildHistory(r, db, HistOpt{NKeys: nk, Epochs: cfg.Epochs, OpsPerEpoch: func() int {
		if cfg.Keys == 0 {
			return 0
		}
		return nk/2 + r.Intn(nk+1)
	}(), KeepProb: 0.5, Writers: 1 + r.Intn(3), DeleteBias: 40})
	maxv, total := h.PhysicalVersions()
	target := h.Snaps[len(h.Snaps)-1]
	if cfg.Older && len(h.Snaps) > 1 {
		target = h.Snaps[r.Intn(len(h.Snaps)-1)]
	}
	// StoreToDisk consumes one reference of the snapshot it is given
	// (in delta mode the point is that nobody pins the snapshot, so the harness gives its only reference away)
	keepRef := !cfg.Delta
	if keepRef && !target.S.Open() {
		c.Violate("open-refused", "Open() returned false on an open snapshot", cfg)
		return
	}
	// concurrent churn: one goroutine owns all writers, mutates, creates snapshots, closes others, calls GC
	var stop int32
	var churnWG sync.WaitGroup
	churned := 0
	churnPanic := ""
	if cfg.Churn && cfg.Keys > 0 {
		churnWG.Add(1)
		go func() {
			defer churnWG.Done()
			defer func() {
				if p := recover(); p != nil {
					churnPanic = fmt.Sprint(p)
				}
			}()
			cr := rand.New(rand.NewSource(c.Seed ^ int64(c.Index)))
			for atomic.LoadInt32(&stop) == 0 && churned < 400 {
				h.Mutate(cr, 1+cr.Intn(nk/2+2), 50)
				s, err := db.N.NewSnapshot()
				if err != nil {
					return
				}
				churned++
				// close one of the history's other snapshots now and then so GC can overtake the backup scan
				s.Close()
				if cr.Intn(3) == 0 {
					db.N.GC()
				}
				runtime.Gosched()
			}
		}()
	}
	// close every other snapshot of the history during/before the backup so collection is possible
	for _, hs := range h.Snaps {
		if hs != target {
			hs.S.Close()
		}
	}
	nCb := 0
	cb := func(*nitro.ItemEntry) {
		nCb++
		if cfg.Stall > 0 && nCb%cfg.Stall == 0 {
			runtime.Gosched()
			if nCb%(cfg.Stall*8) == 0 {
				time.Sleep(50 * time.Microsecond)
			}
		}
	}
	dir := filepath.Join(c.Tmp, "bk")
	err := db.N.StoreToDisk(dir, target.S, cfg.StoreConc, cb)
	atomic.StoreInt32(&stop, 1)
	churnWG.Wait()
	if churnPanic != "" {
		c.Inconclusive("churn goroutine saw a set-semantics disagreement during the backup (C02/C03 oracle): " + churnPanic)
		return
	}
	c.Evals(1)
	sig := fmt.Sprintf("delta=%v/older=%v/churn=%v/maxv=%d/conc=%d-%d/n=%s/mem=%s", cfg.Delta, cfg.Older, cfg.Churn && churned > 0, min(maxv, 4), cfg.StoreConc, cfg.LoadConc, sizeClass(len(target.Want)), cfg.Mem)
	if err != nil {
		// the property is conditional on success; an unexpected failure without injected faults is still worth knowing
		c.Inconclusive(fmt.Sprintf("StoreToDisk failed without injected faults: %v", err))
		if keepRef {
			target.S.Close()
		}
		return
	}
	fresh := db.Fresh()
	var early *nitro.Writer
	if c.Index%2 == 1 {
		early = fresh.N.NewWriter() // a writer that exists before the restore and is used after it
	}
	res, stuck, inc := loadWithProbe(fresh, dir, cfg.LoadConc)
	witness := map[string]interface{}{"cfg": cfg, "stored_sn": target.Sn, "items": len(target.Want), "max_versions": maxv, "physical_nodes": total, "churn_epochs": churned}
	switch {
	case inc:
		c.Inconclusive("LoadFromDisk did not return and the stuck probe could not decide")
		return
	case stuck:
		c.Violate("load-stuck", "LoadFromDisk of a successful backup is stuck", witness)
		return
	case res.pan != nil:
		c.Violate("load-panic", fmt.Sprintf("LoadFromDisk of a successful backup panicked: %v", res.pan), witness)
		return
	case res.err != nil:
		c.Violate("load-error", fmt.Sprintf("StoreToDisk succeeded but LoadFromDisk failed: %v", res.err), witness)
		return
	}
	got, _ := Scan(res.snap, 0)
	if d := DiffScan(got, target.Want); d != "" {
		c.Violate("restore-content", fmt.Sprintf("restored snapshot differs from the stored snapshot sn=%d: %s", target.Sn, d), witness)
	}
	if res.snap.Count() != int64(len(target.Want)) {
		c.Violate("restore-count", fmt.Sprintf("restored Count()=%d, stored snapshot has %d items", res.snap.Count(), len(target.Want)), witness)
	}
	dr, df := fresh.N.DeltaRestored, fresh.N.DeltaRestoreFailed
	c.Count("delta_items_restored", int64(dr))
	c.Count("delta_items_duplicate", int64(df))
	c.Count("items_compared", int64(len(target.Want)))
	if dr > 0 {
		sig += "/delta-used"
	}
	c.Sig("%s", sig)
	c.Sample(witness)
	// the restored instance keeps behaving like a set (C01-C03 continue on it)
	h2model := NewModel()
	if !c.Failed() {
		h2 := &Hist{DB: fresh, Model: fresh.NewModel(), NKeys: nk, Versions: map[int]int{}}
		for _, e := range target.Want {
			h2.Model.live[e.Key] = e.Item
		}
		h2.valctr = 1 << 20
		h2.Writers = append(h2.Writers, fresh.N.NewWriter(), fresh.N.NewWriter())
		if early != nil {
			h2.Writers[0] = early
		}
		func() {
			defer func() {
				if p := recover(); p != nil {
					c.Violate("restored-instance-semantics", fmt.Sprintf("operation on the restored instance disagrees with the reference set: %v", p), witness)
				}
			}()
			for e := 0; e < 3; e++ {
				h2.Mutate(r, 30+nk/4, 50)
				hs := h2.Snapshot()
				g, _ := Scan(hs.S, pick(r, 0, 3))
				if d := DiffScan(g, hs.Want); d != "" {
					c.Violate("restored-instance-snapshot", fmt.Sprintf("snapshot %d taken on the restored instance differs from the reference set: %s", e, d), witness)
					break
				}
				if hs.S.Count() != int64(len(hs.Want)) {
					c.Violate("restored-instance-count", fmt.Sprintf("Count()=%d on the restored instance, reference %d", hs.S.Count(), len(hs.Want)), witness)
					break
				}
			}
		}()
		// the first restored snapshot must still be intact
		g, _ := Scan(res.snap, 0)
		if d := DiffScan(g, target.Want); d != "" {
			c.Violate("restored-snapshot-isolation", "restored snapshot changed after further operations: "+d, witness)
		}
		h2.CloseAll()
		h2model = h2.Model
	}
	res.snap.Close()
	restoredClosed := false
	if !c.Failed() && nk <= 64 && c.Index%3 == 0 {
		// the restored instance also obeys C03: a contention burst by four new writers on its keys,
		// histories checked with porcupine (the engine closes the instance at the end)
		st := map[int]string{}
		nkc := min(nk, 4)
		for k := 0; k < nkc; k++ {
			if it := h2model.Get(string(KeyBytes(k))); it != nil {
				st[k] = "P"
				if fresh.KV {
					_, v := nitro.KVFromBytes(it)
					st[k] = string(v)
				}
			}
		}
		ce := NewContendOn(c, CtdOpt{Mem: cfg.Mem, NWriters: 4, NKeys: nkc, Phases: 3, OpsPerW: 24, Mix: "mixed", Perturb: 1}, fresh, st)
		ce.Run()
		for _, p := range ce.probs {
			if p.Prop == "C03" || p.Prop == "C04" {
				c.Violate("restored-instance-"+p.Kind, "concurrent writers on the restored instance: "+p.Detail, witness)
			}
		}
		c.Count("restored_instance_histories_checked", int64(ce.Histories))
		restoredClosed = true
	}
	if !c.Failed() {
		// original and restored instance: with every handle closed, GC() at quiescence must reach the newest snapshot
		for which, d := range map[string]*DB{"restored": fresh, "original": db} {
			if which == "restored" && restoredClosed {
				continue
			}
			if which == "original" && keepRef {
				continue // the harness still holds its extra reference of the stored snapshot
			}
			d.N.GC()
			if !Quiesce(d.N) {
				continue
			}
			if last, cur := d.N.GetLastGCSn(), d.N.GetCurrSn(); last != cur-1 {
				open, retired := d.N.VerifSnapshotLists()
				c.Violate("collector-stuck-after-backup", fmt.Sprintf("%s instance: every snapshot handle is closed and GC() ran at quiescence, but GetLastGCSn()=%d, newest snapshot %d (open list %d, retired list %d)", which, last, cur-1, open, retired), witness)
			}
		}
	}
	if keepRef {
		target.S.Close()
	}
	if !c.Failed() {
		if !restoredClosed {
			fresh.N.Close()
		}
		db.N.Close()
	}
}

func init() {
	rt.Register(&rt.Prop{
		ID: "C05", Level: "exploration",
		Technique: "runtime monitoring: restored snapshot (scan, Count) compared with the model copy of the stored snapshot; reference-set monitor continues on the restored instance",
		Rule: "each case builds a seeded multi-version history (0-3000 keys; 20000 in some thorough cases), stores the latest or an older open snapshot with store concurrency ∈ {1,2,4,16}, with and without delta interleaving, DiskBlockSize ∈ {64,4096,512Ki}, usually while a churn goroutine mutates, creates and closes snapshots and calls GC() and the item callback stalls the scan; then loads into a fresh instance (load concurrency ∈ {1,2,4,16}), compares scan and Count, runs 3 further epochs of Put/Delete/NewSnapshot on the restored instance against the reference set and re-checks the restored snapshot. " +
			"every 24th case uses 2*NumCPU+8 writers with delta interleaving and releases 48 retired garbage lists to the collection workers at once during the backup. evaluations = store/load pairs; distinct = (delta on/off, older/latest, churn active, max physical versions per key, concurrencies, size class, memory mode, delta items actually restored) tuples",
		Assumptions: []string{"StoreToDisk consumes one reference of the snapshot passed in; the harness Open()s it first", "all writers are driven by one churn goroutine during the backup so NewSnapshot never overlaps a writer call", "the restored instance gets writers created after LoadFromDisk"},
		Cases: func(t string) int {
			if t == "thorough" {
				return 960
			}
			return 48
		},
		Batch:       func(t string) int { return 4 },
		Procs:       12,
		MinSigs:     12,
		CaseTimeout: 4 * time.Minute,
		Run:         runC05,
	})
}

// c05ManyWriters: delta interleaving with more writers than CPUs (every writer's collection worker
// has its own delta file) and dozens of garbage lists released at once during the backup: an old
// snapshot blocks the in-order collector while 48 later snapshots are retired behind it; it is closed
// when the backup has started, so all lists reach the workers together and many of them log delta
// items concurrently.
func c05ManyWriters(c *rt.C) {
	r := c.Rng
	mem := []string{"go", "poison"}[c.Index%2]
	db := OpenDB(DBOpt{Mem: mem, Delta: true})
	nW := 2*runtime.NumCPU() + 8
	ws := make([]*nitro.Writer, nW)
	for i := range ws {
		ws[i] = db.N.NewWriter()
	}
	const nKeys = 30000
	model := db.NewModel()
	for i := 0; i < nKeys; i++ {
		k := []byte(fmt.Sprintf("key-%07d", i))
		ws[i%nW].Put(k)
		model.Put(string(k), k)
	}
	blocker, _ := db.N.NewSnapshot()
	ws[0].Put([]byte("zz-late")) // something born after the blocker
	model.Put("zz-late", []byte("zz-late"))
	target, _ := db.N.NewSnapshot()
	want := model.Snapshot()
	// 48 epochs of deletes of items visible in the target; every one retired behind the blocker
	perm := r.Perm(nKeys)
	pos := 0
	for e := 0; e < 48; e++ {
		for j := 0; j < 300; j++ {
			k := []byte(fmt.Sprintf("key-%07d", perm[pos]))
			pos++
			ws[r.Intn(nW)].Delete(k)
		}
		s, _ := db.N.NewSnapshot()
		s.Close()
	}
	started := make(chan struct{})
	var once sync.Once
	n := 0
	dir := filepath.Join(c.Tmp, "bk")
	errc := make(chan error, 1)
	go func() {
		errc <- db.N.StoreToDisk(dir, target, 4, func(*nitro.ItemEntry) { // gives the target's only reference away
			n++
			if n == 50 {
				once.Do(func() { close(started) })
			}
			if n%64 == 0 {
				runtime.Gosched()
			}
		})
	}()
	select {
	case <-started:
	case err := <-errc:
		errc <- err
	}
	blocker.Close() // releases the collector: blocker, target and 48 retired lists go to the workers at once
	err := <-errc
	c.Evals(1)
	witness := map[string]interface{}{"mem": mem, "writers": nW, "keys": nKeys, "retired_snapshots_released_at_once": 48}
	if err != nil {
		c.Inconclusive("StoreToDisk failed without injected faults: " + err.Error())
		return
	}
	fresh := db.Fresh()
	res, stuck, inc := loadWithProbe(fresh, dir, 8)
	switch {
	case inc:
		c.Inconclusive("LoadFromDisk did not return")
		return
	case stuck || res.pan != nil || res.err != nil:
		c.Violate("load-error", fmt.Sprintf("StoreToDisk (delta interleaving, %d writers, 48 garbage lists collected during the backup) succeeded but LoadFromDisk failed: stuck=%v panic=%v err=%v", nW, stuck, res.pan, res.err), witness)
		return
	}
	got, _ := Scan(res.snap, 0)
	if d := DiffScan(got, want); d != "" {
		c.Violate("restore-content", fmt.Sprintf("delta backup with %d writers: restored snapshot differs: %s", nW, d), witness)
	}
	if res.snap.Count() != int64(len(want)) {
		c.Violate("restore-count", fmt.Sprintf("restored Count()=%d, stored %d", res.snap.Count(), len(want)), witness)
	}
	c.Count("delta_items_restored", int64(fresh.N.DeltaRestored))
	c.Count("delta_items_duplicate", int64(fresh.N.DeltaRestoreFailed))
	c.Sig("many-writers/w=%d/mem=%s/delta-used=%v", nW, mem, fresh.N.DeltaRestored > 0)
	witness["delta_items_restored"] = fresh.N.DeltaRestored
	c.Sample(witness)
	res.snap.Close()
}
