package props

import (
	"fmt"
	"math/rand"
	"path/filepath"
	"sync"
	"time"
	"unsafe"

	"github.com/couchbase/nitro"
	"github.com/couchbase/nitro/skiplist"

	"nitroverif/internal/rt"
)

// C14 — structure and statistics at quiescence.

// c14Bare: concurrent insert/delete on the bare skiplist, then at quiescence a
// full-level walk and reconciliation of every statistic.
func c14Bare(c *rt.C) {
	r := c.Rng
	mem := memModes()[c.Index%3]
	e := newSLEnv(mem)
	s := skiplist.NewWithConfig(e.cfg)
	nG := pick(r, 2, 4, 8, 16)
	nKeys := pick(r, 4, 16, 64, 256)
	forced := r.Intn(2) == 0
	if forced {
		raiseLevel(s, 8)
	}
	perturb := pick(r, 0, 1, 4)
	if perturb > 0 {
		pt := perturber(r.Int63(), perturb)
		skiplist.VerifSetHook(func(id int, arg unsafe.Pointer) { pt(id) })
	}
	defer skiplist.VerifSetHook(nil)
	for ph := 0; ph < 6 && !c.Failed(); ph++ {
		var wg sync.WaitGroup
		for g := 0; g < nG; g++ {
			wg.Add(1)
			go func(g int) {
				defer wg.Done()
				lr := rand.New(rand.NewSource(c.Seed + int64(ph)*31 + int64(g)))
				buf := s.MakeBuf()
				var sts skiplist.Stats
				sts.IsLocal(true) // exercise the local-statistics + Merge path as nitro's writers do
				for i := 0; i < 200; i++ {
					itm := e.intItem(lr.Intn(nKeys))
					// phase 0 only inserts: the structure is walked before any delete touches the new nodes
					if ph == 0 || lr.Intn(2) == 0 {
						if forced {
							s.Insert3(itm, skiplist.CompareInt, nil, buf, lr.Intn(9), false, &sts)
						} else {
							s.Insert2(itm, skiplist.CompareInt, nil, buf, lr.Float32, &sts)
						}
					} else if e.a != nil {
						tok := s.GetAccesBarrier().Acquire()
						_, n, found := s.Lookup(itm, skiplist.CompareInt, buf, &sts)
						ok := found && s.DeleteNode2(n, skiplist.CompareInt, buf, &sts)
						s.GetAccesBarrier().Release(tok)
						if ok {
							s.GetAccesBarrier().FlushSession(unsafe.Pointer(n))
						}
					} else {
						s.Delete(itm, skiplist.CompareInt, buf, &sts)
					}
				}
				s.Stats.Merge(&sts)
			}(g)
		}
		wg.Wait()
		w := WalkLive(s, func(a, b unsafe.Pointer) int { return skiplist.CompareInt(a, b) }, func(unsafe.Pointer) int { return 0 }, 1<<20, liveOf(e))
		c.Evals(1)
		c.Count("nodes_walked", int64(w.Level0Linked))
		c.Sig("bare/mem=%s/g=%d/forced=%v/maxlevel=%d", mem, nG, forced, w.MaxLevelSeen)
		witness := map[string]interface{}{"mem": mem, "goroutines": nG, "keys": nKeys, "forced_levels": forced, "phase": ph}
		if len(w.NotLive) > 0 {
			c.Inconclusive("C04's oracle fired: " + w.NotLive[0])
			return
		}
		if len(w.Problems) > 0 {
			c.Violate("structure", fmt.Sprintf("bare skiplist after phase %d: %v", ph, w.Problems), witness)
		}
		if ps := slStatsProblems(s, w); len(ps) > 0 {
			c.Violate("statistics", fmt.Sprintf("bare skiplist after phase %d: %v", ph, ps), witness)
		}
		if e.a != nil {
			// allocations minus frees once the barrier is drained: nodes linked + head + tail
			st := s.GetStats()
			live := e.a.LiveCount()
			if int64(live) != int64(w.Level0Linked)+2 {
				c.Violate("allocs-minus-frees", fmt.Sprintf("bare skiplist after phase %d: allocator has %d live blocks, %d nodes are linked (+2 sentinels); NodeAllocs-NodeFrees=%d", ph, live, w.Level0Linked, st.NodeAllocs-st.NodeFrees), witness)
			}
		}
		if ph == 0 {
			c.Sample(map[string]interface{}{"kind": "bare", "mem": mem, "goroutines": nG, "keys": nKeys, "forced_levels": forced, "nodes": w.Level0Linked, "max_level": w.MaxLevelSeen})
		}
	}
}

// c14HeightRace: the list's height while it grows. A writer is held inside the level draw of Insert2
// (the random source is the caller's, so it may take arbitrarily long) while other writers complete
// inserts of tall nodes that raise the height; then it is released. Whatever the writers did with the
// height in between, at quiescence no node may be linked above the list's level (searches, deletes and
// the unlink pass start there); run for C04 in user-managed memory, no released node may still be linked
// after the tall nodes were deleted and flushed. Hook-free.
func c14HeightRace(c *rt.C, prop string) {
	r := c.Rng
	mem := memModes()[c.Index%3]
	if prop == "C04" {
		mem = []string{"pageguard", "poison"}[c.Index%2]
	}
	e := newSLEnv(mem)
	s := skiplist.NewWithConfig(e.cfg)
	draws := func(n int) func() float32 {
		return func() float32 {
			if n > 0 {
				n--
				return 0
			}
			return 1
		}
	}
	check := func(round int, when string) bool {
		w := WalkLive(s, func(a, b unsafe.Pointer) int { return skiplist.CompareInt(a, b) }, func(unsafe.Pointer) int { return 0 }, 1<<16, liveOf(e))
		c.Evals(1)
		witness := map[string]interface{}{"mem": mem, "round": round, "when": when, "list_level": s.VerifLevel(), "max_level_linked": w.MaxLevelSeen}
		if prop == "C04" {
			// user-managed memory: a deleted node has been flushed and (nothing else holds a token) released
			if len(w.NotLive) > 0 {
				c.Violate("freed-while-linked", fmt.Sprintf("height race, round %d, %s: %s", round, when, w.NotLive[0]), witness)
			}
			for _, v := range e.a.Violations() {
				c.Violate("alloc-"+v.Kind, fmt.Sprintf("height race: %+v", v), witness)
			}
			c.Sig("height-race/mem=%s/level=%d/%s", mem, s.VerifLevel(), when)
			return !c.Failed()
		}
		if len(w.NotLive) > 0 {
			c.Inconclusive("C04's oracle fired: " + w.NotLive[0])
			return false
		}
		if len(w.Problems) > 0 {
			c.Violate("structure", fmt.Sprintf("height race, round %d, %s: %v", round, when, w.Problems), witness)
		}
		if ps := slStatsProblems(s, w); len(ps) > 0 {
			c.Violate("statistics", fmt.Sprintf("height race, round %d, %s: %v", round, when, ps), witness)
		}
		c.Sig("height-race/mem=%s/level=%d/%s", mem, s.VerifLevel(), when)
		return !c.Failed()
	}
	del := func(k int, buf *skiplist.ActionBuffer) bool {
		itm := e.intItem(k)
		if e.a != nil {
			tok := s.GetAccesBarrier().Acquire()
			_, n, found := s.Lookup(itm, skiplist.CompareInt, buf, &s.Stats)
			ok := found && s.DeleteNode2(n, skiplist.CompareInt, buf, &s.Stats)
			s.GetAccesBarrier().Release(tok)
			if ok {
				s.GetAccesBarrier().FlushSession(unsafe.Pointer(n))
			}
			return ok
		}
		return s.Delete(itm, skiplist.CompareInt, buf, &s.Stats)
	}
	buf := s.MakeBuf()
	key := 0
	stalls := 0
	for round := 0; round < 8 && !c.Failed(); round++ {
		key += 10
		stalled, others := key, []int{}
		entered, release, done := make(chan struct{}), make(chan struct{}), make(chan bool, 1)
		k := r.Intn(6)
		go func() {
			b := s.MakeBuf()
			var sts skiplist.Stats
			sts.IsLocal(true)
			first := true
			inner := draws(k)
			_, ok := s.Insert2(e.intItem(stalled), skiplist.CompareInt, nil, b, func() float32 {
				if first {
					first = false
					close(entered)
					<-release
				}
				return inner()
			}, &sts)
			s.Stats.Merge(&sts)
			done <- ok
		}()
		select {
		case <-entered:
			stalls++
		case <-time.After(20 * time.Second):
			c.Inconclusive("the stalled writer never reached its level draw")
			close(release)
			return
		}
		for i, m := 0, 1+r.Intn(3); i < m; i++ { // complete inserts of nodes as tall as the list lets them be
			key++
			others = append(others, key)
			if _, ok := s.Insert2(e.intItem(key), skiplist.CompareInt, nil, buf, draws(5+r.Intn(3)), &s.Stats); !ok {
				c.Violate("insert", "insert of a fresh key failed", nil)
			}
		}
		close(release)
		if !<-done {
			c.Violate("insert", "insert of a fresh key (held inside its level draw) failed", nil)
		}
		if !check(round, "after the inserts") {
			return
		}
		// delete the tall nodes (all of them, or all but one) and look again
		for i, kk := range others {
			if i == 0 && r.Intn(2) == 0 {
				continue
			}
			if !del(kk, buf) {
				c.Violate("delete", "delete of a present key failed", nil)
			}
		}
		if r.Intn(2) == 0 && !del(stalled, buf) {
			c.Violate("delete", "delete of a present key failed", nil)
		}
		if !check(round, "after deleting the tall nodes") {
			return
		}
	}
	c.Count("writers_held_inside_the_level_draw", int64(stalls))
	c.Sample(map[string]interface{}{"kind": "height-race", "mem": mem, "rounds": 8, "final_list_level": s.VerifLevel()})
}

// c14Restore: structure and statistics of an instance produced by LoadFromDisk (+ delta inserts).
func c14Restore(c *rt.C) {
	r := c.Rng
	mem := memModes()[c.Index%3]
	delta := r.Intn(2) == 0
	db := OpenDB(DBOpt{Mem: mem, KV: r.Intn(2) == 0, Delta: delta})
	nk := pick(r, 1, 10, 200, 2000)
	if mem == "pageguard" && nk > 200 {
		nk = 200
	}
	h := BuildHistory(r, db, HistOpt{NKeys: nk, Epochs: 1 + r.Intn(4), OpsPerEpoch: nk + r.Intn(nk+1), KeepProb: 0, Writers: 2})
	target := h.Snaps[len(h.Snaps)-1]
	h.Snaps = nil
	// churn during a delta backup so that delta files are non-empty
	stop := make(chan struct{})
	var wg sync.WaitGroup
	if delta {
		wg.Add(1)
		go func() {
			defer wg.Done()
			cr := rand.New(rand.NewSource(c.Seed))
			for i := 0; i < 200; i++ {
				select {
				case <-stop:
					return
				default:
				}
				h.Mutate(cr, 1+nk/4, 60)
				s, _ := db.N.NewSnapshot()
				s.Close()
			}
		}()
	}
	dir := filepath.Join(c.Tmp, "bk")
	n := 0
	err := db.N.StoreToDisk(dir, target.S, pick(r, 1, 4), func(*nitro.ItemEntry) {
		n++
		if n%5 == 0 {
			yieldNow()
		}
	})
	close(stop)
	wg.Wait()
	if err != nil {
		c.Inconclusive("StoreToDisk failed: " + err.Error())
		return
	}
	fresh := db.Fresh()
	res, stuck, inc := loadWithProbe(fresh, dir, pick(r, 1, 2, 8))
	if inc || stuck || res.pan != nil || res.err != nil {
		c.Inconclusive(fmt.Sprintf("restore did not succeed (stuck=%v panic=%v err=%v)", stuck, res.pan, res.err))
		return
	}
	if !Quiesce(fresh.N) {
		c.Inconclusive("quiescence probe did not settle")
		return
	}
	w := WalkLive(fresh.N.VerifStore(), fresh.InsCmp(), nitro.ItemSize, 1<<22, func() func(unsafe.Pointer) bool {
		if fresh.A == nil {
			return nil
		}
		return fresh.A.IsLive
	}())
	c.Evals(1)
	c.Count("nodes_walked", int64(w.Level0Linked))
	witness := map[string]interface{}{"mem": mem, "delta": delta, "items": len(target.Want), "delta_restored": fresh.N.DeltaRestored}
	if len(w.Problems) > 0 {
		c.Violate("structure-after-restore", fmt.Sprintf("%v", w.Problems), witness)
	}
	if ps := ReconcileStats(fresh, w); len(ps) > 0 {
		c.Violate("statistics-after-restore", fmt.Sprintf("%v", ps), witness)
	}
	c.Sig("restore/mem=%s/delta=%v/deltaused=%v/n=%s/maxlevel=%d", mem, delta, fresh.N.DeltaRestored > 0, sizeClass(len(target.Want)), w.MaxLevelSeen)
	c.Sample(witness)
	res.snap.Close()
}

func runC14(c *rt.C) {
	r := c.Rng
	if c.Index < len(slMicros) {
		maxS, extra := 8000, 1000
		if c.Tier == "thorough" {
			maxS, extra = 300000, 50000
		}
		c13Micro(c, slMicros[c.Index], maxS, extra, "C14")
		return
	}
	if c.Index%10 == 5 {
		c14HeightRace(c, "C14")
		return
	}
	switch c.Index % 5 {
	case 0:
		c14Bare(c)
	case 1:
		c14Restore(c)
	case 2:
		c18Builder(c) // walk + statistics after Assemble and after further operations
		c.Sig("builder/%d", c.Index%7)
	case 3:
		o := CtdOpt{Mem: memModes()[(c.Index/5)%3], KV: r.Intn(2) == 0, NWriters: pick(r, 2, 4, 8), NKeys: pick(r, 1, 2, 4, 8),
			Phases: 6 + r.Intn(6), Mix: []string{"mixed", "pingpong", "alldelete"}[r.Intn(3)], Perturb: pick(r, 0, 1, 4), OpsPerW: 30}
		e := NewContend(c, o)
		e.Run()
		e.Report("C14")
		c.Evals(int64(e.Checkpoints))
		c.Sig("contend/mix=%s/w=%d/mem=%s", o.Mix, o.NWriters, o.Mem)
	default:
		o := EngOpt{Mem: memModes()[(c.Index/5)%3], KV: r.Intn(2) == 0, NWriters: pick(r, 2, 4, 8), NKeys: pick(r, 16, 64, 256), Phases: 4 + r.Intn(8),
			OpsPerWriter: 60 + r.Intn(150), Scanners: pick(r, 0, 2), Refresh: []int{0, 2}, CloseOrder: "random", MaxOpen: 3, GCStorm: r.Intn(2) == 0,
			Perturb: pick(r, 0, 1, 4), Checkpoints: true, DeleteBias: 45}
		if o.Mem == "pageguard" {
			o.NKeys, o.OpsPerWriter = 32, 60
		}
		e := NewEngine(c, o)
		e.everyPhase = true
		e.Run()
		e.Report("C14")
		c.Evals(int64(e.Checkpoints))
		c.Count("nodes_walked", e.NodesWalked)
		c.Sig("engine/w=%d/mem=%s/maxlevel=%d", o.NWriters, o.Mem, e.WalkMaxLevel)
	}
}

func init() {
	rt.Register(&rt.Prop{
		ID: "C14", Level: "exploration",
		Technique: "runtime monitoring at quiescent points: read-only walk of every level through verif accessors (order, sub-sequence, height/linkage, acyclicity by step bound) and reconciliation with GetStats/DumpStats/MemoryInUse and the allocator's live set",
		Rule: "cases 0-11: the insert/delete micro-scenarios under the serialized controller, walked and reconciled after every schedule. Then rotating: bare skiplist hammered by 2-16 goroutines (random and forced levels up to 8, writer-local statistics merged as nitro does, three memory modes) and walked after each of 6 phases; every 10th case is the height race (a writer held inside the level draw of Insert2 while others complete inserts of tall nodes and raise the list's height, released, walk; the tall nodes deleted, walk: nothing may be linked above the list's level); instances produced by LoadFromDisk incl. delta inserts; builder output (after Assemble and after further operations); nitro contention engine and ownership engine with a checkpoint after every phase. " +
			"evaluations = quiescent points reconciled (or schedules); distinct = configuration tuples incl. maximum level seen",
		Assumptions: []string{"quiescence: all harness goroutines joined and (nitro level) collection/free workers parked with empty queues", "marked nodes are excluded from the chain checks, as the property states"},
		Cases: func(t string) int {
			if t == "thorough" {
				return len(slMicros) + 1500
			}
			return len(slMicros) + 80
		},
		Batch:         func(t string) int { return 6 },
		Procs:         16,
		MinSigs:       25,
		PostAggregate: barPost,
		Run:           runC14,
	})
}
