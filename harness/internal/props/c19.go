package props

import (
	"bytes"
	"encoding/binary"
	"encoding/json"
	"fmt"
	"hash/crc32"
	"io"
	"math/rand"
	"os"
	"path/filepath"
	"sort"
	"time"

	"github.com/couchbase/nitro"

	"nitroverif/internal/rt"
)

// C19 — encoding, framing, checksums. The "spec" functions below are written
// from the property statement, independently of item.go/file.go.

func specFrame(ver int, item []byte) []byte {
	var b []byte
	if ver == 0 {
		b = make([]byte, 2)
		binary.BigEndian.PutUint16(b, uint16(len(item)))
	} else {
		b = make([]byte, 4)
		binary.BigEndian.PutUint32(b, uint32(len(item)))
	}
	return append(b, item...)
}

func specChecksum(ver int, items [][]byte) uint32 {
	var c uint32
	for _, it := range items {
		f := specFrame(ver, it)
		pl := 4
		if ver == 0 {
			pl = 2
		}
		c ^= crc32.ChecksumIEEE(f[:pl]) ^ crc32.ChecksumIEEE(it)
	}
	return c
}

// specParse decodes a shard file: items until the zero-length terminator.
func specParse(ver int, b []byte) (items [][]byte, terminated bool, rest int) {
	pl := 4
	if ver == 0 {
		pl = 2
	}
	for len(b) >= pl {
		var l int
		if ver == 0 {
			l = int(binary.BigEndian.Uint16(b))
		} else {
			l = int(binary.BigEndian.Uint32(b))
		}
		b = b[pl:]
		if l == 0 {
			return items, true, len(b)
		}
		if l > len(b) {
			return items, false, len(b)
		}
		items = append(items, b[:l])
		b = b[l:]
	}
	return items, false, len(b)
}

var c19Lens = []int{1, 2, 3, 4, 5, 7, 8, 255, 256, 257, 4095, 4096, 65535, 65536, 65537, 1 << 20}

func c19Content(r *rand.Rand, l int, style int) []byte {
	b := make([]byte, l)
	switch style % 7 {
	case 0: // zeros
	case 1:
		for i := range b {
			b[i] = 0xff
		}
	case 2: // embedded 4-byte big-endian lengths
		for i := 0; i+4 <= l; i += 4 {
			binary.BigEndian.PutUint32(b[i:], uint32(r.Intn(9)))
		}
	case 3: // embedded 2-byte lengths and terminators
		for i := 0; i+2 <= l; i += 2 {
			binary.BigEndian.PutUint16(b[i:], uint16(r.Intn(3)))
		}
	case 4:
		r.Read(b)
	case 5: // looks like a frame: [len][payload][terminator]
		if l >= 8 {
			binary.BigEndian.PutUint32(b, uint32(l-8))
			r.Read(b[4 : l-4])
		}
	default:
		for i := range b {
			b[i] = byte(i)
		}
	}
	return b
}

type loadRes struct {
	snap *nitro.Snapshot
	err  error
	pan  interface{}
}

// loadWithProbe runs LoadFromDisk in its own goroutine; the wall-clock watchdog
// only decides "look at the goroutine profile now": stuck is declared when the
// caller is parked in a channel send inside LoadFromDisk and no loader worker
// exists that could ever receive.
func loadWithProbe(db *DB, dir string, concurr int) (res loadRes, stuck bool, inconclusive bool) {
	ch := make(chan loadRes, 1)
	go func() {
		defer func() {
			if p := recover(); p != nil {
				ch <- loadRes{pan: p}
			}
		}()
		s, err := db.N.LoadFromDisk(dir, concurr, nil)
		ch <- loadRes{snap: s, err: err}
	}()
	// The wall-clock only paces the sampling; the verdict "stuck" is the structural fact that
	// every goroutine of the call is parked on a call-local synchronisation primitive, observed
	// unchanged (same goroutines, same states) in four consecutive samples.
	wait := 250 * time.Millisecond
	lastSig, same := "", 0
	for i := 0; i < 300; i++ { // a call whose goroutines keep running is given ~10 min (loaded machines) before "inconclusive"
		select {
		case res = <-ch:
			return res, false, false
		case <-time.After(wait):
			sig, parked, _ := loaderSample()
			if parked && sig == lastSig {
				same++
				if same >= 3 {
					return res, true, false
				}
			} else {
				same = 0
			}
			lastSig = sig
			if wait < 2*time.Second {
				wait += wait / 2
			}
		}
	}
	return res, false, true
}

func runC19(c *rt.C) {
	r := c.Rng
	switch c.Index % 4 {
	case 0:
		c19KV(c, r)
	case 1:
		c19Frames(c, r)
	case 2:
		c19Files(c, r, 1)
	default:
		c19Files(c, r, 0)
	}
}

func sign(x int) int {
	switch {
	case x < 0:
		return -1
	case x > 0:
		return 1
	}
	return 0
}

func c19KV(c *rt.C, r *rand.Rand) {
	klens := []int{0, 1, 2, 3, 255, 256, 257, 1000, 65534, 65535}
	vlens := []int{0, 1, 2, 100, 70000}
	type kvp struct{ k, v []byte }
	var pairs []kvp
	for i := 0; i < 40; i++ {
		kl := klens[r.Intn(len(klens))]
		if r.Intn(3) == 0 {
			kl = r.Intn(65536)
		}
		vl := vlens[r.Intn(len(vlens))]
		k := c19Content(r, kl, r.Intn(7))
		v := c19Content(r, vl, r.Intn(7))
		enc := nitro.KVToBytes(k, v)
		gk, gv := nitro.KVFromBytes(enc)
		c.Evals(1)
		c.Sig("kv/klen=%s/vlen=%s", lenClass(kl), lenClass(vl))
		if !bytes.Equal(gk, k) || !bytes.Equal(gv, v) {
			c.Violate("kv-roundtrip", fmt.Sprintf("KVFromBytes(KVToBytes(k,v)) != (k,v) for len(k)=%d len(v)=%d", kl, vl), map[string]interface{}{"klen": kl, "vlen": vl})
			return
		}
		pairs = append(pairs, kvp{k, v})
	}
	// add near-equal keys: prefixes, same key different value
	for i := 0; i < 10; i++ {
		p := pairs[r.Intn(len(pairs))]
		if len(p.k) > 0 {
			pairs = append(pairs, kvp{p.k[:len(p.k)-1], p.v})
		}
		if len(p.k) < 65535 { // the layout stores the key length in 16 bits
			pairs = append(pairs, kvp{append(append([]byte{}, p.k...), 0), p.v})
		}
		pairs = append(pairs, kvp{p.k, []byte("other")})
	}
	for i := 0; i < 300; i++ {
		a, b := pairs[r.Intn(len(pairs))], pairs[r.Intn(len(pairs))]
		got := sign(nitro.CompareKV(nitro.KVToBytes(a.k, a.v), nitro.KVToBytes(b.k, b.v)))
		want := sign(bytes.Compare(a.k, b.k))
		c.Evals(1)
		c.Sig("cmpkv/%d", want)
		if got != want {
			c.Violate("comparekv", fmt.Sprintf("CompareKV orders encoded pairs %d but bytes.Compare orders their keys %d (key lengths %d, %d)", got, want, len(a.k), len(b.k)), nil)
			return
		}
	}
	c.Sample(map[string]interface{}{"kind": "kv", "pairs": len(pairs)})
}

func lenClass(l int) string {
	switch {
	case l == 0:
		return "0"
	case l < 4:
		return fmt.Sprint(l)
	case l < 255:
		return "<255"
	case l <= 257:
		return fmt.Sprint(l)
	case l < 65535:
		return "<64k"
	case l <= 65537:
		return fmt.Sprint(l)
	}
	return ">64k"
}

func c19Frames(c *rt.C, r *rand.Rand) {
	mem := memModes()[(c.Index/4)%3]
	db := OpenDB(DBOpt{Mem: mem})
	w := db.N.NewWriter()
	var lens []string
	scratch := make([]byte, 4)
	for i := 0; i < 24 && !c.Failed(); i++ {
		l := c19Lens[r.Intn(len(c19Lens))]
		if r.Intn(3) == 0 {
			l = 1 + r.Intn(70000)
		}
		style := r.Intn(7)
		item := c19Content(r, l, style)
		n := w.Put2(item)
		if n == nil {
			continue // duplicate content
		}
		itm := (*nitro.Item)(n.Item())
		var buf bytes.Buffer
		cs, err := db.N.EncodeItem(itm, make([]byte, 4), &buf)
		c.Evals(1)
		c.Sig("frame/v1/len=%s/style=%d", lenClass(l), style)
		lens = append(lens, fmt.Sprint(l))
		if err != nil {
			c.Violate("encode-error", fmt.Sprintf("EncodeItem failed for a %d-byte item: %v", l, err), nil)
			break
		}
		want := specFrame(1, item)
		if !bytes.Equal(buf.Bytes(), want) {
			c.Violate("encode-frame", fmt.Sprintf("EncodeItem of a %d-byte item does not produce [4-byte big-endian length][bytes]", l), nil)
			break
		}
		if cs != specChecksum(1, [][]byte{item}) {
			c.Violate("encode-checksum", fmt.Sprintf("EncodeItem checksum %08x != crc32(prefix)^crc32(bytes) %08x", cs, specChecksum(1, [][]byte{item})), nil)
			break
		}
		// the scratch buffer is the caller's and is reused the way the file reader reuses its own: what an
		// earlier call (of either format version) left in it, or any other dirt, must not matter
		switch r.Intn(3) {
		case 0:
			scratch = []byte{0xA5, 0x5A, 0xFF, 0x01}
		case 1:
			scratch = make([]byte, 4)
		}
		for _, ver := range [][]int{{1, 0}, {0, 1}}[r.Intn(2)] {
			if ver == 0 && l > 65535 {
				continue
			}
			stream := append(specFrame(ver, item), specFrame(ver, nil)...)
			rd := bytes.NewReader(stream)
			got, dcs, err := db.N.DecodeItem(ver, scratch, rd)
			c.Sig("decode/v%d/len=%s", ver, lenClass(l))
			if err != nil || got == nil {
				c.Violate("decode-error", fmt.Sprintf("DecodeItem(version %d) of a %d-byte item: item=%v err=%v", ver, l, got != nil, err), nil)
				break
			}
			if !bytes.Equal(got.Bytes(), item) {
				c.Violate("decode-bytes", fmt.Sprintf("DecodeItem(version %d) returned different bytes for a %d-byte item", ver, l), nil)
				break
			}
			if dcs != specChecksum(ver, [][]byte{item}) {
				c.Violate("decode-checksum", fmt.Sprintf("DecodeItem(version %d) checksum %08x, spec %08x", ver, dcs, specChecksum(ver, [][]byte{item})), nil)
				break
			}
			if db.A != nil {
				db.A.Free(unsafePtr(got)) // decoded items are allocator blocks in user-managed mode
			}
			end, _, err := db.N.DecodeItem(ver, scratch, rd)
			if end != nil || err != nil {
				c.Violate("decode-terminator", fmt.Sprintf("terminator not decoded as end-of-stream (item=%v err=%v)", end != nil, err), nil)
				break
			}
			if _, _, err := db.N.DecodeItem(ver, scratch, rd); err != io.EOF {
				c.Violate("decode-eof", fmt.Sprintf("reading past the terminator returned err=%v, want io.EOF", err), nil)
				break
			}
		}
	}
	c.Sample(map[string]interface{}{"kind": "frames", "mem": mem, "item_lengths": lens})
	if !c.Failed() {
		db.N.Close()
	}
}

func c19Files(c *rt.C, r *rand.Rand, ver int) {
	mem := memModes()[(c.Index/4)%3]
	db := OpenDB(DBOpt{Mem: mem})
	nitro.DiskBlockSize = pick(r, 64, 512, 4096, 512*1024)
	defer func() { nitro.DiskBlockSize = 512 * 1024 }()
	n := pick(r, 0, 1, 2, 5, 40, 300, 2000)
	uniq := map[string]bool{}
	var items [][]byte
	for i := 0; i < n; i++ {
		l := 1 + r.Intn(40)
		if r.Intn(8) == 0 {
			l = c19Lens[r.Intn(len(c19Lens))]
		}
		if ver == 0 && l > 65535 {
			l = 65535
		}
		if l >= 1<<20 && n > 100 {
			l = 65536
		}
		it := c19Content(r, l, r.Intn(7))
		if uniq[string(it)] {
			continue
		}
		uniq[string(it)] = true
		items = append(items, it)
	}
	sort.Slice(items, func(i, j int) bool { return bytes.Compare(items[i], items[j]) < 0 })
	dir := filepath.Join(c.Tmp, "bk")
	var shardItems [][][]byte
	if ver == 1 {
		w := db.N.NewWriter()
		for _, it := range items {
			if w.Put2(it) == nil {
				c.Violate("put", "Put2 of a fresh key failed", nil)
				return
			}
		}
		s, _ := db.N.NewSnapshot()
		if err := db.N.StoreToDisk(dir, s, pick(r, 1, 2, 8), nil); err != nil {
			c.Violate("store-error", fmt.Sprintf("StoreToDisk failed: %v", err), nil)
			return
		}
		// independent parse of what was written
		var files []string
		var sums []uint32
		fb, _ := os.ReadFile(filepath.Join(dir, "data", "files.json"))
		json.Unmarshal(fb, &files)
		cb, _ := os.ReadFile(filepath.Join(dir, "data", "checksums.json"))
		json.Unmarshal(cb, &sums)
		if len(files) == 0 || len(sums) != len(files) {
			c.Violate("manifest", fmt.Sprintf("files.json lists %d files, checksums.json %d", len(files), len(sums)), nil)
			return
		}
		var all [][]byte
		for i, f := range files {
			b, err := os.ReadFile(filepath.Join(dir, "data", f))
			if err != nil {
				c.Violate("shard-missing", err.Error(), nil)
				return
			}
			its, term, rest := specParse(1, b)
			if !term || rest != 0 {
				c.Violate("shard-framing", fmt.Sprintf("shard %s: terminated=%v, %d trailing bytes (spec decoder)", f, term, rest), nil)
				return
			}
			if specChecksum(1, its) != sums[i] {
				c.Violate("writer-checksum", fmt.Sprintf("shard %s: checksums.json has %08x, XOR of crc32(prefix)^crc32(bytes) over its %d items is %08x", f, sums[i], len(its), specChecksum(1, its)), nil)
				return
			}
			shardItems = append(shardItems, its)
			all = append(all, its...)
		}
		if len(all) != len(items) {
			c.Violate("file-content", fmt.Sprintf("shard files hold %d items, %d were stored", len(all), len(items)), nil)
			return
		}
		for i := range all {
			if !bytes.Equal(all[i], items[i]) {
				c.Violate("file-content", fmt.Sprintf("item %d in the shard files differs from the stored item", i), nil)
				return
			}
		}
	} else {
		// hand-written version-0 directory
		nsh := pick(r, 1, 2, 5)
		os.MkdirAll(filepath.Join(dir, "data"), 0755)
		var files []string
		var sums []uint32
		per := (len(items) + nsh - 1) / nsh
		for s := 0; s < nsh; s++ {
			lo, hi := s*per, (s+1)*per
			if lo > len(items) {
				lo = len(items)
			}
			if hi > len(items) {
				hi = len(items)
			}
			var b []byte
			for _, it := range items[lo:hi] {
				b = append(b, specFrame(0, it)...)
			}
			b = append(b, 0, 0)
			name := fmt.Sprintf("shard-%d", s)
			os.WriteFile(filepath.Join(dir, "data", name), b, 0644)
			files = append(files, name)
			sums = append(sums, specChecksum(0, items[lo:hi]))
		}
		fb, _ := json.Marshal(files)
		os.WriteFile(filepath.Join(dir, "data", "files.json"), fb, 0644)
		cb, _ := json.Marshal(sums)
		os.WriteFile(filepath.Join(dir, "data", "checksums.json"), cb, 0644)
		if r.Intn(2) == 0 {
			os.WriteFile(filepath.Join(dir, "nitro.json"), []byte(`{"version":0}`), 0644)
		}
	}
	fresh := db.Fresh()
	res, stuck, inc := loadWithProbe(fresh, dir, pick(r, 1, 2, 8))
	c.Evals(1)
	c.Sig("files/v%d/n=%s/blk=%d", ver, sizeClass(len(items)), nitro.DiskBlockSize)
	switch {
	case inc:
		c.Inconclusive("LoadFromDisk did not return and the stuck probe could not decide")
		return
	case stuck:
		c.Violate("load-stuck", "LoadFromDisk of an untouched backup is stuck", nil)
		return
	case res.pan != nil:
		c.Violate("load-panic", fmt.Sprintf("LoadFromDisk of an untouched backup panicked: %v", res.pan), nil)
		return
	case res.err != nil:
		c.Violate("load-error", fmt.Sprintf("LoadFromDisk of an untouched version-%d backup failed: %v (reader checksum vs writer checksum?)", ver, res.err), nil)
		return
	}
	got, _ := Scan(res.snap, 0)
	want := make([]Entry, len(items))
	for i, it := range items {
		want[i] = Entry{string(it), it}
	}
	if d := DiffScan(got, want); d != "" {
		c.Violate("roundtrip-content", fmt.Sprintf("version-%d backup of %d items restored differently: %s", ver, len(items), d), nil)
	}
	if res.snap.Count() != int64(len(items)) {
		c.Violate("roundtrip-count", fmt.Sprintf("restored Count()=%d, stored %d", res.snap.Count(), len(items)), nil)
	}
	c.Sample(map[string]interface{}{"kind": "files", "version": ver, "items": len(items), "mem": mem, "disk_block": nitro.DiskBlockSize, "shards_nonempty": countNonEmpty(shardItems)})
	res.snap.Close()
	fresh.N.Close()
	if !c.Failed() {
		db.N.Close()
	}
}

func countNonEmpty(s [][][]byte) int {
	n := 0
	for _, x := range s {
		if len(x) > 0 {
			n++
		}
	}
	return n
}

func init() {
	rt.Register(&rt.Prop{
		ID: "C19", Level: "exploration",
		Technique: "runtime monitoring: round trips compared with an independently written frame/checksum specification",
		Rule: "case index mod 4 selects: KV helpers (keys 0..65535 bytes incl. prefixes and equal keys; CompareKV sign vs bytes.Compare), frame-level EncodeItem/DecodeItem in both format versions against a spec encoder/decoder (one caller-owned scratch buffer reused across calls and versions, zeroed, dirty or as the previous call left it; lengths 1,2,3,4,5,255,256,65535,65536,65537,1MiB,random; contents zeros, 0xFF, embedded 2- and 4-byte lengths and terminators, frame look-alikes), " +
			"file-level Put→StoreToDisk→independent parse of shard files and checksums.json→LoadFromDisk, and hand-written version-0 directories→LoadFromDisk. evaluations = round trips; distinct = (path, format version, length class, content style / size class, disk block size) tuples",
		Assumptions: []string{"items are non-empty (length 0 is the terminator by design)", "nitro.DiskBlockSize (exported variable) is varied by the harness"},
		Cases: func(t string) int {
			if t == "thorough" {
				return 4000
			}
			return 160
		},
		Batch:       func(t string) int { return 20 },
		Procs:       8,
		MinSigs:     30,
		CaseTimeout: 4 * time.Minute,
		Run:         runC19,
	})
}
