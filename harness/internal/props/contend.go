package props

import (
	"fmt"
	"math/rand"
	"os"
	"runtime/debug"
	"sort"
	"sync"
	"time"
	"unsafe"

	"github.com/anishathalye/porcupine"
	"github.com/couchbase/nitro"
	"github.com/couchbase/nitro/skiplist"

	"nitroverif/internal/rt"
)

// Contention engine: many writers hammer very few keys between snapshot
// creations. Histories are recorded at the client boundary with a logical
// clock and checked per key with porcupine against the set model; the
// post-quiescence snapshot provides a final read per key. Serves C03 (and, via
// its memory / collection / leak oracles, C04, C06, C07, C14).

type setIn struct {
	Op  string // init | put | delete | get | read
	Val string // value written by put / state installed by init
}

type setOut struct {
	OK  bool
	Val string // value observed by get/read ("" if absent or values are not tracked)
}

// state: "" = absent, otherwise "P" (present, value untracked) or the value
func setModel(trackVals bool) porcupine.Model {
	return porcupine.Model{
		Init: func() interface{} { return "" },
		Step: func(st, in, out interface{}) (bool, interface{}) {
			s := st.(string)
			i := in.(setIn)
			o := out.(setOut)
			switch i.Op {
			case "init":
				return true, i.Val
			case "put":
				if s == "" {
					if !o.OK {
						return false, s
					}
					if trackVals {
						return true, i.Val
					}
					return true, "P"
				}
				return !o.OK, s
			case "delete":
				if s != "" {
					return o.OK, ""
				}
				return !o.OK, s
			case "has": // presence only (the value is not read)
				return o.OK == (s != ""), s
			default: // get, read
				if s == "" {
					return !o.OK, s
				}
				if !o.OK {
					return false, s
				}
				if trackVals && o.Val != s {
					return false, s
				}
				return true, s
			}
		},
		DescribeOperation: func(in, out interface{}) string {
			i := in.(setIn)
			o := out.(setOut)
			return fmt.Sprintf("%s(%s)->%v %s", i.Op, i.Val, o.OK, o.Val)
		},
	}
}

type CtdOpt struct {
	Mem       string
	KV        bool
	NWriters  int
	NKeys     int
	Phases    int
	OpsPerW   int
	Mix       string // mixed | allput | alldelete | pingpong | lookup
	Perturb   int
	KeepSnaps int // how many snapshots stay open across phases (older versions stay pinned)
}

type Contend struct {
	o   CtdOpt
	c   *rt.C
	db  *DB
	ws  []*nitro.Writer
	r   *rand.Rand
	sd  int64
	st  map[int]string // key -> chained state ("" absent / value / "P")
	ops int64

	Histories   int
	MaxConc     int
	Unknown     int
	external    bool // runs on a database with other keys and an unknown version history: only the tracked keys are judged
	probs       []EngProblem
	pmu         sync.Mutex
	IlSigs      map[string]bool
	Checkpoints int
	sampleHist  []string
}

func (e *Contend) problem(prop, kind, f string, a ...interface{}) {
	if len(e.probs) < 16 {
		e.probs = append(e.probs, EngProblem{prop, kind, fmt.Sprintf(f, a...)})
	}
}

type recOp struct {
	client, key int
	in          setIn
	out         setOut
	call, ret   int64
}

func NewContend(c *rt.C, o CtdOpt) *Contend {
	return NewContendOn(c, o, nil, nil)
}

// NewContendOn runs the contention engine on an existing database (e.g. one produced by
// LoadFromDisk); st gives the current state of the keys 0..NKeys-1 ("" absent, else the value
// with the KV comparator or "P").
func NewContendOn(c *rt.C, o CtdOpt, db *DB, st map[int]string) *Contend {
	e := &Contend{o: o, c: c, r: c.Rng, st: map[int]string{}, IlSigs: map[string]bool{}}
	e.sd = c.Rng.Int63()
	if db != nil {
		e.db = db
		e.external = true
		e.o.KV = db.KV
		for k, v := range st {
			e.st[k] = v
		}
	} else {
		e.db = OpenDB(DBOpt{Mem: o.Mem, KV: o.KV})
	}
	o = e.o
	if o.Perturb > 0 {
		y := yielder(e.sd, o.Perturb)
		pt := perturber(e.sd, o.Perturb)
		hook := func(id int, arg unsafe.Pointer) { pt(id) }
		skiplist.VerifSetHook(hook)
		nitro.VerifSetHook(hook)
		if e.db.A != nil {
			e.db.A.SetYield(y)
		}
	}
	for i := 0; i < o.NWriters; i++ {
		e.ws = append(e.ws, e.db.N.NewWriter())
	}
	if e.db.A != nil {
		// monitor: no node is released while it is still linked at any level
		st := e.db.N.VerifStore()
		e.db.A.SetOnFree(func(p unsafe.Pointer, size int) {
			if lvl := linkedAt(st, p, 100000); lvl >= 0 {
				fmt.Fprintf(os.Stderr, "MONITOR freed-while-linked block=%p size=%d level=%d\n%s\n", p, size, lvl, debug.Stack())
				e.pmu.Lock()
				e.problem("C04", "freed-while-linked", "a node (block %p, %d bytes) was released while it is still linked on level %d of the structure", p, size, lvl)
				e.pmu.Unlock()
			}
		})
	}
	return e
}

func (e *Contend) Run() {
	o := e.o
	defer func() {
		skiplist.VerifSetHook(nil)
		nitro.VerifSetHook(nil)
	}()
	var kept []*nitro.Snapshot
	model := setModel(o.KV)
	for ph := 0; ph < o.Phases && len(e.probs) == 0; ph++ {
		recs := make([][]recOp, o.NWriters)
		var wg sync.WaitGroup
		start := make(chan struct{})
		for w := 0; w < o.NWriters; w++ {
			wg.Add(1)
			go func(w int) {
				defer wg.Done()
				lr := rand.New(rand.NewSource(e.sd + int64(ph)*131 + int64(w)))
				wr := e.ws[w]
				<-start
				for i := 0; i < o.OpsPerW; i++ {
					k := lr.Intn(o.NKeys)
					var op string
					switch o.Mix {
					case "allput":
						op = "put"
					case "alldelete":
						op = "delete"
					case "pingpong":
						op = []string{"put", "delete"}[lr.Intn(2)]
					case "lookup":
						op = []string{"get", "get", "get", "put", "delete"}[lr.Intn(5)]
					default:
						op = []string{"put", "put", "delete", "delete", "get"}[lr.Intn(5)]
					}
					rec := recOp{client: w, key: k}
					switch op {
					case "put":
						val := fmt.Sprintf("w%d-%d-%d", w, ph, i)
						item := e.db.Item(k, val)
						rec.in = setIn{"put", val}
						rec.call = Tick()
						n := wr.Put2(item)
						rec.ret = Tick()
						rec.out = setOut{OK: n != nil}
					case "delete":
						item := e.db.Item(k, "probe")
						rec.in = setIn{Op: "delete"}
						rec.call = Tick()
						var ok bool
						if lr.Intn(3) == 0 {
							// the long way: lookup and DeleteNode, holding an accessor token so that the
							// handle stays valid in between (what Delete2 does internally)
							br := e.db.N.VerifStore().GetAccesBarrier()
							tok := br.Acquire()
							if n := wr.GetNode(item); n != nil {
								ok = wr.DeleteNode(n)
							}
							br.Release(tok)
						} else if lr.Intn(2) == 0 {
							_, ok = wr.Delete2(item)
						} else {
							ok = wr.Delete(item)
						}
						rec.ret = Tick()
						rec.out = setOut{OK: ok}
					default:
						item := e.db.Item(k, "probe")
						if lr.Intn(2) == 0 {
							// plain public-API lookup, no token of our own: only presence is recorded
							rec.in = setIn{Op: "has"}
							rec.call = Tick()
							n := wr.GetNode(item)
							rec.ret = Tick()
							rec.out = setOut{OK: n != nil}
							break
						}
						rec.in = setIn{Op: "get"}
						tok := e.db.N.VerifStore().GetAccesBarrier().Acquire() // keep the node valid while we read its value
						rec.call = Tick()
						n := wr.GetNode(item)
						rec.ret = Tick()
						rec.out = setOut{OK: n != nil}
						if n != nil && o.KV {
							_, _, data := nitro.VerifItemMeta(n.Item())
							_, v := nitro.KVFromBytes(data)
							rec.out.Val = string(v)
						}
						e.db.N.VerifStore().GetAccesBarrier().Release(tok)
					}
					recs[w] = append(recs[w], rec)
				}
			}(w)
		}
		close(start)
		wg.Wait()
		// quiescent: snapshot = final read of every key
		s, err := e.db.N.NewSnapshot()
		if err != nil {
			e.problem("C03", "newsnapshot-error", "%v", err)
			return
		}
		got, _ := Scan(s, 0)
		tRead := Tick()
		final := map[int]setOut{}
		for k := 0; k < o.NKeys; k++ {
			final[k] = setOut{}
		}
		seenKeys := map[string]bool{}
		others := 0
		for _, it := range got {
			ks := e.db.KeyOf(it)
			if seenKeys[ks] {
				e.problem("C03", "final-duplicate", "phase %d: the snapshot taken after quiescence contains key %q twice", ph, ks)
			}
			seenKeys[ks] = true
			found := false
			for k := 0; k < o.NKeys; k++ {
				if string(KeyBytes(k)) == ks {
					found = true
					out := setOut{OK: true}
					if o.KV {
						_, v := nitro.KVFromBytes(it)
						out.Val = string(v)
					}
					final[k] = out
				}
			}
			if !found {
				if e.external {
					others++
				} else {
					e.problem("C03", "final-unknown-key", "phase %d: snapshot contains a key nobody wrote: %s", ph, fmtItem(it))
				}
			}
		}
		present := 0
		for _, f := range final {
			if f.OK {
				present++
			}
		}
		if s.Count() != int64(len(got)) {
			e.problem("C01", "count-vs-scan", "phase %d: Count()=%d but a full scan of the same snapshot yields %d items", ph, s.Count(), len(got))
		}
		if s.Count() != int64(present+others) {
			e.problem("C03", "count", "phase %d: Count()=%d but the snapshot taken after quiescence contains %d keys", ph, s.Count(), present+others)
		}
		if e.db.N.ItemsCount() != int64(present+others) {
			e.problem("C03", "items-count", "phase %d: ItemsCount()=%d but %d keys are present after quiescence", ph, e.db.N.ItemsCount(), present+others)
		}
		// per-key histories
		perKey := map[int][]porcupine.Operation{}
		for k := 0; k < o.NKeys; k++ {
			perKey[k] = append(perKey[k], porcupine.Operation{ClientId: o.NWriters, Input: setIn{"init", e.st[k]}, Output: setOut{}, Call: 0, Return: 0})
		}
		for w := range recs {
			for _, rc := range recs[w] {
				perKey[rc.key] = append(perKey[rc.key], porcupine.Operation{ClientId: rc.client, Input: rc.in, Output: rc.out, Call: rc.call, Return: rc.ret})
				e.ops++
			}
		}
		for k := 0; k < o.NKeys; k++ {
			perKey[k] = append(perKey[k], porcupine.Operation{ClientId: o.NWriters + 1, Input: setIn{Op: "read"}, Output: final[k], Call: tRead, Return: tRead + 1})
			h := perKey[k]
			res, info := porcupine.CheckOperationsVerbose(model, h, 20*time.Second)
			e.Histories++
			conc := maxConcurrency(h)
			if conc > e.MaxConc {
				e.MaxConc = conc
			}
			e.IlSigs[interleavingSig(h)] = true
			switch res {
			case porcupine.Unknown:
				e.Unknown++
			case porcupine.Illegal:
				_ = info
				e.problem("C03", "not-linearizable", "phase %d key %q (%d operations by %d writers, mix %s, mem %s): history is not linearizable w.r.t. the set model: %s",
					ph, KeyBytes(k), len(h)-2, o.NWriters, o.Mix, o.Mem, describeHist(h, 60))
			}
			if e.sampleHist == nil && len(h) > 4 {
				e.sampleHist = histStrings(h, 30)
			}
			// chain state
			if final[k].OK {
				if o.KV {
					e.st[k] = final[k].Val
				} else {
					e.st[k] = "P"
				}
			} else {
				e.st[k] = ""
			}
		}
		// snapshot bookkeeping: keep a few open so that older versions stay pinned across phases
		kept = append(kept, s)
		for len(kept) > o.KeepSnaps {
			i := e.r.Intn(len(kept))
			kept[i].Close()
			kept = append(kept[:i], kept[i+1:]...)
		}
		if o.KeepSnaps == 0 && len(e.probs) == 0 && !e.external {
			e.checkpoint(fmt.Sprintf("after phase %d", ph), present)
		}
	}
	for _, s := range kept {
		s.Close()
	}
	if len(e.probs) > 0 {
		e.collectAlloc()
		return
	}
	present := 0
	for _, v := range e.st {
		if v != "" {
			present++
		}
	}
	if !e.external {
		e.checkpoint("final", present)
	}
	e.collectAlloc()
	if len(e.probs) > 0 {
		return
	}
	if e.db.A != nil && !e.external {
		w := Walk(e.db.N.VerifStore(), e.db.InsCmp(), nitro.ItemSize, 1<<30)
		if got, want := e.db.A.LiveCount(), 2*w.Level0Linked+2; got != want {
			e.problem("C17", "idle-unfreed", "idle database: %d allocator blocks live, structure accounts for %d", got, want)
		}
	}
	if e.db.A != nil {
		e.db.A.SetOnFree(nil) // Close releases linked nodes by design
	}
	e.db.N.Close()
	if e.db.A != nil {
		e.collectAlloc()
		if n := e.db.A.LiveCount(); n != 0 {
			e.problem("C07", "leak", "%d blocks still allocated after Close(); first: %+v", n, e.db.A.Leaks(3))
		}
		e.db.A.CheckQuarantine()
		e.collectAlloc()
	}
}

// checkpoint with every snapshot closed: after GC() at quiescence exactly the
// live items remain (no version is pinned, nothing was deleted in the new epoch).
func (e *Contend) checkpoint(where string, present int) {
	e.db.N.GC()
	if !Quiesce(e.db.N) {
		e.c.Inconclusive("quiescence probe did not settle at " + where)
		return
	}
	e.Checkpoints++
	cur := e.db.N.GetCurrSn()
	if last := e.db.N.GetLastGCSn(); last != cur-1 {
		e.problem("C06", "gc-frontier", "%s: all snapshots closed and GC() ran at quiescence but GetLastGCSn()=%d, currSn=%d", where, last, cur)
	}
	w := WalkLive(e.db.N.VerifStore(), e.db.InsCmp(), nitro.ItemSize, 1<<20, e.liveFn())
	for _, p := range w.NotLive {
		e.problem("C04", "freed-while-linked", "%s: %s", where, p)
	}
	if len(w.NotLive) > 0 {
		return
	}
	for _, p := range w.Problems {
		e.problem("C14", "structure", "%s: %s", where, p)
	}
	e.db.rawStatsExpected = true
	for _, p := range ReconcileStats(e.db, w) {
		e.problem("C14", "statistics", "%s: %s", where, p)
	}
	if w.Level0Linked != present {
		e.problem("C06", "node-count", "%s: every snapshot is closed and GC() ran at quiescence, %d keys are live, but %d nodes are still physically present (stranded garbage or lost items)", where, present, w.Level0Linked)
	}
	if mem := e.db.N.MemoryInUse(); mem != w.Bytes {
		e.problem("C06", "memory-in-use", "%s: MemoryInUse()=%d, the %d linked nodes account for %d", where, mem, w.Level0Linked, w.Bytes)
	}
	if e.db.A != nil {
		for _, n := range w.Nodes {
			if !e.db.A.IsLive(unsafe.Pointer(n)) || !e.db.A.IsLive(n.Item()) {
				e.problem("C04", "linked-node-not-live", "%s: a linked node or its item is not a live allocator block", where)
				break
			}
		}
		for n := range w.ReachableUpper {
			if !e.db.A.IsLive(unsafe.Pointer(n)) {
				e.problem("C04", "upper-linked-node-not-live", "%s: a node still linked at an upper level has been released", where)
				break
			}
		}
		e.db.A.CheckQuarantine()
	}
}

func (e *Contend) collectAlloc() {
	if e.db.A == nil {
		return
	}
	for _, v := range e.db.A.Violations() {
		e.problem("C04", "alloc-"+v.Kind, "%s of block %s (%d bytes): %s alloc=[%s] free=[%s] second=[%s]", v.Kind, v.Addr, v.Size, v.Detail, v.Alloc, v.Free, v.Second)
	}
}

func (e *Contend) Report(mine ...string) {
	c := e.c
	is := map[string]bool{}
	for _, m := range mine {
		is[m] = true
	}
	for _, p := range e.probs {
		if is[p.Prop] {
			c.Violate(p.Kind, p.Detail, map[string]interface{}{"engine": e.o})
		}
	}
	for _, p := range e.probs {
		if !is[p.Prop] {
			c.Inconclusive(fmt.Sprintf("oracle of %s fired during this case (%s: %s)", p.Prop, p.Kind, p.Detail))
		}
	}
	c.Count("histories_checked", int64(e.Histories))
	c.Count("operations_recorded", e.ops)
	c.Count("checker_unknown", int64(e.Unknown))
	c.Count("checkpoints", int64(e.Checkpoints))
	if e.db.A != nil {
		st := e.db.A.Stats()
		c.Count("blocks_allocated", st.Allocs)
		c.Count("blocks_freed", st.Frees)
		c.Count("frees_under_page_guard", st.GuardedFrees)
	}
	c.Sample(map[string]interface{}{"engine": e.o, "max_concurrency_per_key": e.MaxConc, "history": e.sampleHist})
}

func maxConcurrency(h []porcupine.Operation) int {
	type ev struct {
		t int64
		d int
	}
	var evs []ev
	for _, o := range h {
		evs = append(evs, ev{o.Call, 1}, ev{o.Return, -1})
	}
	sort.Slice(evs, func(i, j int) bool {
		if evs[i].t != evs[j].t {
			return evs[i].t < evs[j].t
		}
		return evs[i].d > evs[j].d
	})
	cur, max := 0, 0
	for _, e := range evs {
		cur += e.d
		if cur > max {
			max = cur
		}
	}
	return max
}

// interleavingSig: the per-key order of call/return events (client, kind), hashed.
func interleavingSig(h []porcupine.Operation) string {
	type ev struct {
		t    int64
		c    int
		kind byte
		op   string
	}
	var evs []ev
	for _, o := range h {
		evs = append(evs, ev{o.Call, o.ClientId, 'c', o.Input.(setIn).Op}, ev{o.Return, o.ClientId, 'r', ""})
	}
	sort.Slice(evs, func(i, j int) bool { return evs[i].t < evs[j].t })
	var hsh uint64 = 1469598103934665603
	for _, e := range evs {
		for _, b := range []byte(fmt.Sprintf("%d%c%s|", e.c, e.kind, e.op)) {
			hsh ^= uint64(b)
			hsh *= 1099511628211
		}
	}
	return fmt.Sprintf("il-%x", hsh)
}

func histStrings(h []porcupine.Operation, max int) []string {
	hs := append([]porcupine.Operation(nil), h...)
	sort.Slice(hs, func(i, j int) bool { return hs[i].Call < hs[j].Call })
	var out []string
	for i, o := range hs {
		if i >= max {
			out = append(out, "…")
			break
		}
		in := o.Input.(setIn)
		ou := o.Output.(setOut)
		out = append(out, fmt.Sprintf("[%d,%d] c%d %s(%s)->%v %s", o.Call, o.Return, o.ClientId, in.Op, in.Val, ou.OK, ou.Val))
	}
	return out
}

func describeHist(h []porcupine.Operation, max int) string {
	return fmt.Sprint(histStrings(h, max))
}

// ---------------------------------------------------------------------------

func c03Opts(c *rt.C) CtdOpt {
	r := c.Rng
	o := CtdOpt{
		Mem:       []string{"go", "go", "poison", "pageguard"}[c.Index%4],
		KV:        (c.Index/4)%2 == 0,
		NWriters:  pick(r, 2, 3, 4, 8, 16),
		NKeys:     pick(r, 1, 1, 2, 3, 4, 8),
		Phases:    6 + r.Intn(10),
		Mix:       []string{"mixed", "mixed", "allput", "alldelete", "pingpong", "lookup"}[r.Intn(6)],
		Perturb:   pick(r, 0, 1, 4, 8),
		KeepSnaps: pick(r, 0, 0, 1, 3),
	}
	// keep per-key histories short: <= ~48 operations per key per phase
	o.OpsPerW = 48 * o.NKeys / o.NWriters
	if o.OpsPerW < 3 {
		o.OpsPerW = 3
	}
	if o.OpsPerW > 40 {
		o.OpsPerW = 40
	}
	return o
}

func runC03(c *rt.C) {
	e := NewContend(c, c03Opts(c))
	e.Run()
	e.Report("C03")
	for s := range e.IlSigs {
		c.Sig("%s", s)
	}
	c.Evals(int64(e.Histories))
	if e.Unknown*4 > e.Histories && e.Histories > 0 {
		c.Inconclusive(fmt.Sprintf("%d of %d histories timed out in the checker", e.Unknown, e.Histories))
	}
}

func init() {
	rt.Register(&rt.Prop{
		ID: "C03", Level: "exploration",
		Technique: "runtime monitoring: client-boundary histories with a logical clock, checked per key with the porcupine linearizability checker against the set model; post-quiescence snapshot as final read",
		Rule: "each case = 6-15 chained phases in which 2-16 writers (one goroutine each) concurrently issue Put2/Delete/GetNode on 1-8 shared keys (mixes: mixed, all-Put, all-Delete, Put/Delete ping-pong, lookup-heavy; unique values with the KV comparator so a read identifies its write), NewSnapshot after quiescence gives a final read per key and Count()/ItemsCount() are compared with it; 0-3 snapshots stay open across phases so keys have versions born in earlier epochs; hook-point/allocator perturbation; Go-managed, poison and pageguard memory. " +
			"evaluations = per-key histories checked; distinct = distinct per-key interleaving signatures (hash of the order of call/return events by client and operation)",
		Assumptions: []string{"one goroutine per Writer; NewSnapshot only after all writers of the phase returned", "porcupine v1.3.0 is trusted as the history checker; a checker timeout is inconclusive"},
		Cases: func(t string) int {
			if t == "thorough" {
				return 1600
			}
			return 64
		},
		Batch:   func(t string) int { return 4 },
		Procs:   16,
		MinSigs: 50,
		Run:     runC03,
	})
}

func (e *Contend) liveFn() func(unsafe.Pointer) bool {
	if e.db.A == nil {
		return nil
	}
	return e.db.A.IsLive
}
