package props

import (
	"fmt"
	"math/rand"
	"path/filepath"
	"runtime"
	"sync"
	"time"
	"unsafe"

	"github.com/anishathalye/porcupine"
	"github.com/couchbase/nitro"

	"nitroverif/internal/rt"
)

// C08 — snapshot reference count never leaves zero.

type rcIn struct{ Op string } // open | close | init
type rcOut struct{ OK bool }

var rcModel = porcupine.Model{
	Init: func() interface{} { return 0 },
	Step: func(st, in, out interface{}) (bool, interface{}) {
		n := st.(int)
		switch in.(rcIn).Op {
		case "init1":
			return true, 1
		case "open":
			if n > 0 {
				return out.(rcOut).OK, n + 1
			}
			return !out.(rcOut).OK, n
		default: // close (the caller holds a reference: count must be positive)
			if n <= 0 {
				return false, n
			}
			return true, n - 1
		}
	},
	DescribeOperation: func(in, out interface{}) string {
		return fmt.Sprintf("%s->%v", in.(rcIn).Op, out.(rcOut).OK)
	},
}

// c08Directed: A passes Open's zero test and parks; B performs the final
// Close; A resumes. (mirror: B parks after its decrement, A opens.)
func c08Directed(c *rt.C, variant int) {
	db := OpenDB(DBOpt{Mem: "go"})
	w := db.N.NewWriter()
	for i := 0; i < 20; i++ {
		w.Put(KeyBytes(i))
	}
	s1, _ := db.N.NewSnapshot()
	for i := 0; i < 10; i++ {
		w.Delete(KeyBytes(i))
	}
	s2, _ := db.N.NewSnapshot()
	for i := 10; i < 20; i++ {
		w.Delete(KeyBytes(i))
	}
	s3, _ := db.N.NewSnapshot()
	target := s1
	parked := make(chan struct{})
	resume := make(chan struct{})
	var once sync.Once
	point := nitro.VpOpenChecked
	if variant == 1 {
		point = nitro.VpCloseDecremented
	}
	armed := true
	nitro.VerifSetHook(func(id int, arg unsafe.Pointer) {
		if armed && id == point && (*nitro.Snapshot)(arg) == target {
			once.Do(func() {
				close(parked)
				<-resume
			})
		}
	})
	defer nitro.VerifSetHook(nil)
	var openRes bool
	var tOpenCall, tOpenRet, tCloseCall, tCloseRet int64
	done := make(chan struct{})
	desc := ""
	if variant == 0 {
		desc = "A passes Open's zero test and parks; B does the final Close; A resumes"
		go func() {
			tOpenCall = Tick()
			openRes = target.Open()
			tOpenRet = Tick()
			close(done)
		}()
		select {
		case <-parked:
		case <-done:
			c.Inconclusive("hook point in Open never reached")
			return
		}
		tCloseCall = Tick()
		target.Close() // final close (refcount 1 -> 0)
		tCloseRet = Tick()
		close(resume)
		<-done
	} else {
		desc = "B's final Close parks right after its decrement; A calls Open; B resumes"
		go func() {
			tCloseCall = Tick()
			target.Close()
			tCloseRet = Tick()
			close(done)
		}()
		select {
		case <-parked:
		case <-done:
			c.Inconclusive("hook point in Close never reached")
			return
		}
		tOpenCall = Tick()
		openRes = target.Open()
		tOpenRet = Tick()
		close(resume)
		<-done
	}
	armed = false
	c.Evals(1)
	c.Sig("directed/%d/open=%v", variant, openRes)
	hist := []porcupine.Operation{
		{ClientId: 2, Input: rcIn{"init1"}, Output: rcOut{}, Call: 0, Return: 0},
		{ClientId: 0, Input: rcIn{"open"}, Output: rcOut{openRes}, Call: tOpenCall, Return: tOpenRet},
		{ClientId: 1, Input: rcIn{"close"}, Output: rcOut{true}, Call: tCloseCall, Return: tCloseRet},
	}
	holds := openRes
	if openRes {
		// the opener now believes it holds a reference and will close it
		t0 := Tick()
		target.Close()
		hist = append(hist, porcupine.Operation{ClientId: 0, Input: rcIn{"close"}, Output: rcOut{true}, Call: t0, Return: Tick()})
	}
	_ = holds
	witness := map[string]interface{}{"schedule": desc, "open_returned": openRes, "history": rcHist(hist)}
	if res := porcupine.CheckOperations(rcModel, hist); !res {
		c.Violate("open-after-final-close", "directed schedule ("+desc+"): the Open/Close history is not linearizable against a reference count that never leaves zero (Open succeeded although the last reference had been dropped)", witness)
	}
	// Open after everything is closed must fail, NewIterator must return nil
	if target.Open() {
		c.Violate("open-on-retired", "Open() succeeded on a fully released snapshot", witness)
	}
	if it := target.NewIterator(); it != nil {
		c.Violate("iterator-on-retired", "NewIterator() returned an iterator on a fully released snapshot", witness)
	}
	// the collector must still make progress on all later snapshots
	s2.Close()
	s3.Close()
	c08CheckCollector(c, db, 0, witness)
	c.Sample(witness)
}

func rcHist(h []porcupine.Operation) []string {
	var out []string
	for _, o := range h {
		out = append(out, fmt.Sprintf("[%d,%d] c%d %s->%v", o.Call, o.Return, o.ClientId, o.Input.(rcIn).Op, o.Output.(rcOut).OK))
	}
	return out
}

// c08CheckCollector: all handles closed; after GC() at quiescence the frontier
// must have reached the newest snapshot, both snapshot lists must be empty and
// exactly `live` nodes may remain.
func c08CheckCollector(c *rt.C, db *DB, live int, witness interface{}) {
	// The callers closed their last snapshots one after the other from one goroutine: each of those
	// Close calls triggers a collection pass that nobody competes with, so the frontier must already
	// have reached the newest snapshot before any explicit GC().
	if Quiesce(db.N) {
		if last, cur := db.N.GetLastGCSn(), db.N.GetCurrSn(); last != cur-1 {
			open, retired := db.N.VerifSnapshotLists()
			c.Violate("collector-needs-explicit-gc", fmt.Sprintf("the last snapshots were closed sequentially (each Close triggers a collection pass) but GetLastGCSn()=%d < newest snapshot %d before any explicit GC() (open list %d, retired list %d): an earlier retired snapshot is never picked up by later Closes", last, cur-1, open, retired), witness)
			return
		}
	}
	db.N.GC()
	if !Quiesce(db.N) {
		c.Inconclusive("quiescence probe did not settle")
		return
	}
	cur := db.N.GetCurrSn()
	open, retired := db.N.VerifSnapshotLists()
	if last := db.N.GetLastGCSn(); last != cur-1 {
		c.Violate("collector-stuck", fmt.Sprintf("all handles are closed and GC() ran at quiescence, but GetLastGCSn()=%d < newest snapshot %d (open list %d, retired list %d): a retired snapshot is blocking collection", last, cur-1, open, retired), witness)
		return
	}
	if open != 0 || retired != 0 {
		c.Violate("snapshot-lists", fmt.Sprintf("all handles closed: %d snapshots remain in the open list and %d in the retired list after GC()", open, retired), witness)
	}
	w := Walk(db.N.VerifStore(), db.InsCmp(), nitro.ItemSize, 1<<20)
	if w.Level0Linked != live {
		c.Violate("node-count", fmt.Sprintf("all handles closed and collected: %d nodes remain, %d items are live", w.Level0Linked, live), witness)
	}
	if n := len(db.N.GetSnapshots()); n != 0 {
		c.Violate("snapshot-lists", fmt.Sprintf("GetSnapshots() still lists %d snapshots", n), witness)
	}
}

// c08Stress: goroutines race Open/NewIterator/Close around the final closes of
// several snapshots; each snapshot's history is checked against the refcount
// model; then new epochs must still be collected.
func c08Stress(c *rt.C) {
	r := c.Rng
	db := OpenDB(DBOpt{Mem: []string{"go", "poison"}[c.Index%2]})
	w := db.N.NewWriter()
	nSnaps := 1 + r.Intn(8)
	nG := 2 + r.Intn(31)
	live := 0
	for i := 0; i < 40; i++ {
		w.Put(KeyBytes(i))
		live++
	}
	var snaps []*nitro.Snapshot
	next := 0
	for i := 0; i < nSnaps; i++ {
		for k := 0; k < 3; k++ {
			if w.Delete(KeyBytes(next)) {
				live--
			}
			next++
		}
		s, _ := db.N.NewSnapshot()
		snaps = append(snaps, s)
	}
	y := yielder(r.Int63(), pick(r, 1, 4, 8))
	nitro.VerifSetHook(func(id int, arg unsafe.Pointer) {
		if id == nitro.VpOpenChecked || id == nitro.VpCloseDecremented || id == nitro.VpCloseRetired {
			y()
		}
	})
	defer nitro.VerifSetHook(nil)
	type rec struct {
		snap int
		op   porcupine.Operation
	}
	recs := make([][]rec, nG)
	var wg sync.WaitGroup
	start := make(chan struct{})
	// the main goroutine's initial reference of each snapshot is closed by goroutine 0 at a random moment
	for g := 0; g < nG; g++ {
		wg.Add(1)
		go func(g int) {
			defer wg.Done()
			lr := rand.New(rand.NewSource(c.Seed + int64(g)*977))
			<-start
			closeAt := map[int]int{}
			if g == 0 {
				for i := range snaps {
					closeAt[i] = lr.Intn(40)
				}
			}
			for i := 0; i < 40; i++ {
				for si, at := range closeAt {
					if at == i {
						t0 := Tick()
						snaps[si].Close()
						recs[g] = append(recs[g], rec{si, porcupine.Operation{ClientId: g, Input: rcIn{"close"}, Output: rcOut{true}, Call: t0, Return: Tick()}})
					}
				}
				si := lr.Intn(len(snaps))
				s := snaps[si]
				if lr.Intn(2) == 0 {
					t0 := Tick()
					ok := s.Open()
					recs[g] = append(recs[g], rec{si, porcupine.Operation{ClientId: g, Input: rcIn{"open"}, Output: rcOut{ok}, Call: t0, Return: Tick()}})
					if ok {
						if lr.Intn(2) == 0 {
							runtime.Gosched()
						}
						t1 := Tick()
						s.Close()
						recs[g] = append(recs[g], rec{si, porcupine.Operation{ClientId: g, Input: rcIn{"close"}, Output: rcOut{true}, Call: t1, Return: Tick()}})
					}
				} else {
					t0 := Tick()
					it := s.NewIterator()
					recs[g] = append(recs[g], rec{si, porcupine.Operation{ClientId: g, Input: rcIn{"open"}, Output: rcOut{it != nil}, Call: t0, Return: Tick()}})
					if it != nil {
						it.SeekFirst()
						t1 := Tick()
						it.Close()
						recs[g] = append(recs[g], rec{si, porcupine.Operation{ClientId: g, Input: rcIn{"close"}, Output: rcOut{true}, Call: t1, Return: Tick()}})
					}
				}
			}
		}(g)
	}
	close(start)
	wg.Wait()
	nitro.VerifSetHook(nil)
	opensAfterZero := 0
	for si := range snaps {
		h := []porcupine.Operation{{ClientId: nG, Input: rcIn{"init1"}, Output: rcOut{}, Call: 0, Return: 0}}
		for g := range recs {
			for _, rc := range recs[g] {
				if rc.snap == si {
					h = append(h, rc.op)
					if rc.op.Input.(rcIn).Op == "open" && !rc.op.Output.(rcOut).OK {
						opensAfterZero++
					}
				}
			}
		}
		res := porcupine.CheckOperationsTimeout(rcModel, h, 20*time.Second)
		c.Evals(1)
		c.Sig("%s", interleavingSigRC(h))
		if res == porcupine.Illegal {
			c.Violate("refcount-history", fmt.Sprintf("snapshot #%d: Open/NewIterator/Close history by %d goroutines is not linearizable against a reference count that never leaves zero", si, nG),
				map[string]interface{}{"goroutines": nG, "snapshots": nSnaps, "history": rcHist(h)})
			return
		}
		if res == porcupine.Unknown {
			c.Count("checker_unknown", 1)
		}
		if snaps[si].Open() {
			c.Violate("open-on-retired", "Open() succeeded on a fully released snapshot after the race", nil)
			return
		}
	}
	c.Count("opens_refused", int64(opensAfterZero))
	// new epochs must still be collected
	for k := 0; k < 3; k++ {
		if w.Delete(KeyBytes(next)) {
			live--
		}
		next++
		s, _ := db.N.NewSnapshot()
		s.Close()
	}
	c08CheckCollector(c, db, live, map[string]interface{}{"goroutines": nG, "snapshots": nSnaps})
	c.Sample(map[string]interface{}{"stress": true, "goroutines": nG, "snapshots": nSnaps, "opens_refused": opensAfterZero})
}

// c08Backup: StoreToDisk consumes one reference of the snapshot it is given (in delta mode it
// releases it early and scans a private placeholder). Whatever the mode, and whether or not the
// caller keeps a reference of its own, the snapshot must be retired exactly once: afterwards
// Open fails, and the collector reaches every later snapshot.
func c08Backup(c *rt.C) {
	r := c.Rng
	delta := c.Index%2 == 0
	keep := (c.Index/2)%2 == 0  // the caller keeps its own reference across the backup
	older := (c.Index/4)%2 == 0 // an older snapshot is open during the backup
	db := OpenDB(DBOpt{Mem: []string{"go", "poison"}[c.Index%2], Delta: delta})
	w := db.N.NewWriter()
	live := 0
	for i := 0; i < 60; i++ {
		w.Put(KeyBytes(i))
		live++
	}
	var old *nitro.Snapshot
	if older {
		old, _ = db.N.NewSnapshot()
	}
	for i := 0; i < 10; i++ {
		w.Delete(KeyBytes(i))
		live--
	}
	s, _ := db.N.NewSnapshot()
	if keep && !s.Open() {
		c.Violate("open-refused", "Open() refused on an open snapshot", nil)
		return
	}
	err := db.N.StoreToDisk(filepath.Join(c.Tmp, "bk"), s, pick(r, 1, 4), nil)
	c.Evals(1)
	c.Sig("backup/delta=%v/keep=%v/older=%v", delta, keep, older)
	witness := map[string]interface{}{"delta": delta, "caller_keeps_reference": keep, "older_snapshot_open": older}
	if err != nil {
		c.Inconclusive("StoreToDisk failed: " + err.Error())
		return
	}
	if keep {
		// the caller's reference is still valid: the snapshot must still be listed and scannable
		found := false
		for _, x := range db.N.GetSnapshots() {
			if x == s {
				found = true
			}
		}
		if !found {
			c.Violate("retired-while-referenced", "after StoreToDisk the snapshot is gone from the open list although the caller still holds a reference", witness)
		}
		if got, ok := Scan(s, 0); !ok || len(got) != 50 {
			c.Violate("retired-while-referenced", fmt.Sprintf("after StoreToDisk the caller's reference no longer scans the snapshot (ok=%v, %d items, want 50)", ok, len(got)), witness)
		}
		s.Close()
	}
	if s.Open() {
		c.Violate("open-on-retired", "Open() succeeded after the last reference was released (StoreToDisk consumed it)", witness)
	}
	if old != nil {
		old.Close()
	}
	for k := 10; k < 13; k++ {
		w.Delete(KeyBytes(k))
		live--
		x, _ := db.N.NewSnapshot()
		x.Close()
	}
	c08CheckCollector(c, db, live, witness)
	c.Sample(witness)
}

// c08ManyRetired: the oldest snapshot stays open while hundreds of newer ones are fully released;
// closing it makes one collection pass hand over all their garbage lists at once (more than the
// collection queue holds).
func c08ManyRetired(c *rt.C) {
	r := c.Rng
	db := OpenDB(DBOpt{Mem: []string{"go", "poison"}[c.Index%2]})
	w := db.N.NewWriter()
	n := pick(r, 300, 700, 1500)
	for i := 0; i < 100; i++ {
		w.Put(KeyBytes(i))
	}
	live := 100
	oldest, _ := db.N.NewSnapshot()
	var snaps []*nitro.Snapshot
	for i := 0; i < n; i++ {
		if i < 60 {
			w.Delete(KeyBytes(i))
			live--
		}
		s, _ := db.N.NewSnapshot()
		snaps = append(snaps, s)
	}
	order := pick(r, 0, 1, 2)
	switch order {
	case 0: // newest first
		for i := len(snaps) - 1; i >= 0; i-- {
			snaps[i].Close()
		}
	case 1:
		for _, s := range snaps {
			s.Close()
		}
	default:
		r.Shuffle(len(snaps), func(i, j int) { snaps[i], snaps[j] = snaps[j], snaps[i] })
		for _, s := range snaps {
			s.Close()
		}
	}
	oldest.Close() // one pass now has n+1 lists to hand over
	c.Evals(1)
	c.Sig("many-retired/n=%d/order=%d", n, order)
	witness := map[string]interface{}{"retired_behind_the_oldest": n, "close_order": []string{"newest-first", "oldest-first", "random"}[order]}
	c08CheckCollector(c, db, live, witness)
	c.Sample(witness)
}

// c08MissedWakeup: a collection pass has finished its walk but still holds the collector flag when
// another goroutine closes the next snapshot (its own GC() attempt fails the try-lock). Later
// snapshots closed one after the other must still get everything collected.
func c08MissedWakeup(c *rt.C) {
	db := OpenDB(DBOpt{Mem: "go"})
	w := db.N.NewWriter()
	for i := 0; i < 40; i++ {
		w.Put(KeyBytes(i))
	}
	live := 40
	var snaps []*nitro.Snapshot
	for i := 0; i < 4; i++ {
		w.Delete(KeyBytes(i))
		live--
		s, _ := db.N.NewSnapshot()
		snaps = append(snaps, s)
	}
	parked := make(chan struct{})
	resume := make(chan struct{})
	var once sync.Once
	nitro.VerifSetHook(func(id int, arg unsafe.Pointer) {
		if id == nitro.VpGCLeaving {
			once.Do(func() {
				close(parked)
				<-resume
			})
		}
	})
	defer nitro.VerifSetHook(nil)
	done := make(chan struct{})
	go func() { snaps[0].Close(); close(done) }() // its pass collects snapshot 1 and parks before dropping the flag
	select {
	case <-parked:
	case <-done:
		c.Inconclusive("hook point in GC never reached")
		return
	}
	snaps[1].Close() // retired, but its GC() finds the collector flag taken
	close(resume)
	<-done
	nitro.VerifSetHook(nil)
	snaps[2].Close()
	snaps[3].Close()
	c.Evals(1)
	c.Sig("missed-wakeup")
	witness := map[string]interface{}{"schedule": "Close(s1)'s collection pass parked before dropping the collector flag; Close(s2) meanwhile; then Close(s3), Close(s4) sequentially"}
	c08CheckCollector(c, db, live, witness)
	c.Sample(witness)
}

func interleavingSigRC(h []porcupine.Operation) string {
	var hs uint64 = 1469598103934665603
	type ev struct {
		t int64
		s string
	}
	var evs []ev
	for _, o := range h {
		evs = append(evs, ev{o.Call, fmt.Sprintf("%dc%s", o.ClientId, o.Input.(rcIn).Op)}, ev{o.Return, fmt.Sprintf("%dr%v", o.ClientId, o.Output.(rcOut).OK)})
	}
	for i := 1; i < len(evs); i++ {
		for j := i; j > 0 && evs[j].t < evs[j-1].t; j-- {
			evs[j], evs[j-1] = evs[j-1], evs[j]
		}
	}
	for _, e := range evs {
		for _, b := range []byte(e.s) {
			hs ^= uint64(b)
			hs *= 1099511628211
		}
	}
	return fmt.Sprintf("rc-%x", hs)
}

func init() {
	rt.Register(&rt.Prop{
		ID: "C08", Level: "exploration",
		Technique: "runtime monitoring: deterministic rendezvous schedules through the Open/Close hook points + stress histories checked with porcupine against a reference-count model; collector progress reconciled at quiescence",
		Rule: "cases 0-1: directed schedules (A passes Open's zero test and parks, B performs the final Close, A resumes; and the mirror image with B parked right after its decrement) — deterministic, replay exactly. cases 2-9: StoreToDisk (delta on/off, caller keeping its own reference or not, an older snapshot open or not) consumes a reference — afterwards the snapshot must be retired exactly once (still listed while the caller's reference lives, Open fails after, collector reaches every later snapshot). cases 10-13: the oldest snapshot stays open while 300-1500 newer ones are released, then it is closed (one collection pass hands over more garbage lists than the queue holds); case 14: a collection pass parked right before it drops the collector flag while the next snapshot is closed, then two more closed sequentially — the frontier must reach the newest snapshot without an explicit GC(). Other cases: 2-32 goroutines race Open / NewIterator / Close / Iterator.Close around the final close of 1-8 snapshots with perturbation at the hook points; every snapshot's history is checked against the refcount model (Open true iff count>0), Open/NewIterator must fail afterwards, then 3 new epochs are created and closed and GC() at quiescence must bring GetLastGCSn to the newest snapshot, empty both snapshot lists and leave exactly the live items. " +
			"evaluations = histories checked; distinct = per-snapshot interleaving signatures",
		Assumptions: []string{"every goroutine closes only references it holds (a client double-close is not judged)", "porcupine v1.3.0 trusted as checker"},
		Cases: func(t string) int {
			if t == "thorough" {
				return 2000
			}
			return 102
		},
		Batch:   func(t string) int { return 10 },
		Procs:   12,
		MinSigs: 50,
		Run: func(c *rt.C) {
			if c.Index < 2 {
				c08Directed(c, c.Index)
				return
			}
			if c.Index < 10 {
				c08Backup(c)
				return
			}
			if c.Index < 14 {
				c08ManyRetired(c)
				return
			}
			if c.Index == 14 {
				c08MissedWakeup(c)
				return
			}
			c08Stress(c)
		},
	})
}
