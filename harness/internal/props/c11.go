package props

import (
	"encoding/json"
	"fmt"
	"math/rand"
	"os"
	"path/filepath"
	"runtime/debug"
	"sort"
	"strings"
	"time"

	"github.com/couchbase/nitro"

	"nitroverif/internal/rt"
)

// C11 — restore of damaged backups: error or exact, never silent, never stuck.

type bkFile struct {
	rel   string // path relative to the backup dir
	class string // data-shard | delta-shard | files.json | checksums.json | delta-files.json | delta-checksums.json | nitro.json
	data  []byte
}

type backup struct {
	dir        string
	files      []bkFile
	want       []Entry
	db         *DB // the source database (its config is reused for fresh instances)
	delta      bool
	deltaItems int
	// delta items that the last successful tryLoad inserted (items that only the delta shards held)
	lastDeltaRestored int
}

func classify(rel string) string {
	base := filepath.Base(rel)
	inDelta := strings.HasPrefix(rel, "delta/")
	switch {
	case base == "nitro.json":
		return "nitro.json"
	case base == "files.json" && inDelta:
		return "delta-files.json"
	case base == "checksums.json" && inDelta:
		return "delta-checksums.json"
	case base == "files.json":
		return "files.json"
	case base == "checksums.json":
		return "checksums.json"
	case inDelta:
		return "delta-shard"
	}
	return "data-shard"
}

// makeBackup builds a small database and stores it. With delta, a churn
// goroutine makes sure the delta shards are non-empty.
func makeBackup(c *rt.C, r *rand.Rand, mem string, delta bool, nKeys int, dir string) *backup {
	if nKeys < 0 {
		return makeRegularBackup(c, r, mem, -nKeys, dir)
	}
	db := OpenDB(DBOpt{Mem: mem, KV: r.Intn(2) == 0, Delta: delta})
	h := BuildHistory(r, db, HistOpt{NKeys: nKeys, Epochs: 2 + r.Intn(3), OpsPerEpoch: nKeys + r.Intn(nKeys+1), KeepProb: 0, Writers: 2, DeleteBias: 35})
	target := h.Snaps[len(h.Snaps)-1]
	h.Snaps = nil
	stop := make(chan struct{})
	done := make(chan struct{})
	if delta {
		go func() {
			defer close(done)
			defer func() { recover() }()
			cr := rand.New(rand.NewSource(r.Int63()))
			for i := 0; i < 300; i++ {
				select {
				case <-stop:
					return
				default:
				}
				h.Mutate(cr, 1+nKeys/3, 70)
				s, _ := db.N.NewSnapshot()
				s.Close()
				db.N.GC()
			}
		}()
	} else {
		close(done)
	}
	n := 0
	err := db.N.StoreToDisk(dir, target.S, pick(r, 1, 2, 8), func(*nitro.ItemEntry) {
		n++
		if delta && n%2 == 0 {
			time.Sleep(200 * time.Microsecond)
		}
	})
	close(stop)
	<-done
	if err != nil {
		c.Inconclusive("StoreToDisk failed: " + err.Error())
		return nil
	}
	b := &backup{dir: dir, want: target.Want, db: db, delta: delta}
	filepath.Walk(dir, func(p string, info os.FileInfo, err error) error {
		if err == nil && !info.IsDir() {
			rel, _ := filepath.Rel(dir, p)
			data, _ := os.ReadFile(p)
			b.files = append(b.files, bkFile{rel: filepath.ToSlash(rel), class: classify(filepath.ToSlash(rel)), data: data})
		}
		return nil
	})
	sort.Slice(b.files, func(i, j int) bool { return b.files[i].rel < b.files[j].rel })
	return b
}

// makeRegularBackup stores n equal-length, consecutively numbered keys ("k0".."k3", "k00".."k15", ...):
// the kind of data whose per-shard xor of item CRCs is exactly 0 (CRC32 is affine, so the xor over
// an even number of equal-length items is the CRC-part of the xor of the items, which is 0 for
// aligned groups of four consecutive numbers).
func makeRegularBackup(c *rt.C, r *rand.Rand, mem string, n int, dir string) *backup {
	db := OpenDB(DBOpt{Mem: mem})
	w := db.N.NewWriter()
	model := NewModel()
	width := len(fmt.Sprint(n - 1))
	for i := 0; i < n; i++ {
		k := []byte(fmt.Sprintf("k%0*d", width, i))
		w.Put(k)
		model.Put(string(k), k)
	}
	s, _ := db.N.NewSnapshot()
	if err := db.N.StoreToDisk(dir, s, pick(r, 1, 2, 8), nil); err != nil {
		c.Inconclusive("StoreToDisk failed: " + err.Error())
		return nil
	}
	b := &backup{dir: dir, want: model.Snapshot(), db: db}
	filepath.Walk(dir, func(p string, info os.FileInfo, err error) error {
		if err == nil && !info.IsDir() {
			rel, _ := filepath.Rel(dir, p)
			data, _ := os.ReadFile(p)
			b.files = append(b.files, bkFile{rel: filepath.ToSlash(rel), class: classify(filepath.ToSlash(rel)), data: data})
		}
		return nil
	})
	sort.Slice(b.files, func(i, j int) bool { return b.files[i].rel < b.files[j].rel })
	return b
}

// zeroChecksumShards counts non-empty data shards whose recorded checksum is 0.
func (b *backup) zeroChecksumShards() int {
	var sums []uint32
	var files []string
	for _, f := range b.files {
		if f.class == "checksums.json" {
			json.Unmarshal(f.data, &sums)
		}
		if f.class == "files.json" {
			json.Unmarshal(f.data, &files)
		}
	}
	n := 0
	for i, name := range files {
		for _, f := range b.files {
			if f.rel == "data/"+name && len(f.data) > 4 && i < len(sums) && sums[i] == 0 {
				n++
			}
		}
	}
	return n
}

type fault struct {
	Op    string // flip | set | truncate | delete | multi-truncate | multi-delete
	File  string
	Class string
	Off   int
	Val   int // bit index for flip, byte value for set, new length for truncate
	Files []string
}

func (f fault) String() string {
	switch f.Op {
	case "flip":
		return fmt.Sprintf("flip bit %d of byte %d of %s", f.Val, f.Off, f.File)
	case "set":
		return fmt.Sprintf("set byte %d of %s to 0x%02x", f.Off, f.File, f.Val)
	case "truncate":
		return fmt.Sprintf("truncate %s to %d bytes", f.File, f.Val)
	case "delete":
		return "delete " + f.File
	}
	return fmt.Sprintf("%s %v", f.Op, f.Files)
}

// apply damages the directory in place; the returned function undoes it.
func (b *backup) apply(f fault) (undo func()) {
	byRel := map[string]*bkFile{}
	for i := range b.files {
		byRel[b.files[i].rel] = &b.files[i]
	}
	restore := func(rels ...string) func() {
		return func() {
			for _, rel := range rels {
				os.WriteFile(filepath.Join(b.dir, rel), byRel[rel].data, 0644)
			}
		}
	}
	switch f.Op {
	case "flip", "set":
		d := append([]byte(nil), byRel[f.File].data...)
		if f.Op == "flip" {
			d[f.Off] ^= 1 << uint(f.Val)
		} else {
			d[f.Off] = byte(f.Val)
		}
		os.WriteFile(filepath.Join(b.dir, f.File), d, 0644)
		return restore(f.File)
	case "truncate":
		os.WriteFile(filepath.Join(b.dir, f.File), byRel[f.File].data[:f.Val], 0644)
		return restore(f.File)
	case "delete":
		os.Remove(filepath.Join(b.dir, f.File))
		return restore(f.File)
	case "multi-flip":
		for _, rel := range f.Files {
			d := append([]byte(nil), byRel[rel].data...)
			if f.Off < len(d) {
				d[f.Off] ^= 1 << uint(f.Val)
			}
			os.WriteFile(filepath.Join(b.dir, rel), d, 0644)
		}
		return restore(f.Files...)
	case "multi-truncate":
		for i, rel := range f.Files {
			d := byRel[rel].data
			n := (f.Val + i) % (len(d))
			os.WriteFile(filepath.Join(b.dir, rel), d[:n], 0644)
		}
		return restore(f.Files...)
	case "multi-delete":
		for _, rel := range f.Files {
			os.Remove(filepath.Join(b.dir, rel))
		}
		return restore(f.Files...)
	}
	return func() {}
}

// tryLoad loads the (damaged) directory into a fresh instance and classifies the outcome.
func (b *backup) tryLoad(concurr int) (outcome string, detail string) {
	fresh := b.db.Fresh()
	res, stuck, inc := loadWithProbe(fresh, b.dir, concurr)
	switch {
	case inc:
		return "inconclusive", "LoadFromDisk did not return and the stuck probe could not decide"
	case stuck:
		return "stuck", "LoadFromDisk never returns: every goroutine of the call is parked on a call-local channel / wait group (identical in four consecutive goroutine-profile samples); nobody is left who could wake one of them"
	case res.pan != nil:
		return "panic", fmt.Sprintf("LoadFromDisk panicked: %v", res.pan)
	case res.err != nil:
		return "error", res.err.Error()
	}
	b.lastDeltaRestored = int(fresh.N.DeltaRestored)
	got, ok := Scan(res.snap, 0)
	if !ok {
		return "wrong", "returned snapshot cannot be iterated"
	}
	d := DiffScan(got, b.want)
	cnt := res.snap.Count()
	res.snap.Close()
	if d != "" {
		return "wrong", "LoadFromDisk returned success but a different item set: " + d
	}
	if cnt != int64(len(b.want)) {
		return "wrong", fmt.Sprintf("LoadFromDisk returned success, the items match but Count()=%d (stored %d)", cnt, len(b.want))
	}
	fresh.N.Close()
	return "exact", ""
}

// singleFaults enumerates (or, with sample>0, samples) the single-fault space.
func (b *backup) singleFaults(r *rand.Rand, sample int) (fs []fault, exhaustive bool) {
	for _, f := range b.files {
		fs = append(fs, fault{Op: "delete", File: f.rel, Class: f.class})
		for n := 0; n < len(f.data); n++ {
			fs = append(fs, fault{Op: "truncate", File: f.rel, Class: f.class, Val: n})
		}
		for off := 0; off < len(f.data); off++ {
			for bit := 0; bit < 8; bit++ {
				fs = append(fs, fault{Op: "flip", File: f.rel, Class: f.class, Off: off, Val: bit})
			}
			for _, v := range []int{0x00, 0xff} {
				if int(f.data[off]) != v {
					fs = append(fs, fault{Op: "set", File: f.rel, Class: f.class, Off: off, Val: v})
				}
			}
		}
	}
	if sample <= 0 || sample >= len(fs) {
		return fs, true
	}
	// stratified: keep every delete, then a seeded sample per (class, op)
	groups := map[string][]fault{}
	var out []fault
	for _, f := range fs {
		if f.Op == "delete" {
			out = append(out, f)
			continue
		}
		k := f.Class + "/" + f.Op
		groups[k] = append(groups[k], f)
	}
	keys := make([]string, 0, len(groups))
	for k := range groups {
		keys = append(keys, k)
	}
	sort.Strings(keys)
	per := (sample - len(out)) / (len(keys) + 1)
	if per < 4 {
		per = 4
	}
	for _, k := range keys {
		g := groups[k]
		r.Shuffle(len(g), func(i, j int) { g[i], g[j] = g[j], g[i] })
		if len(g) > per {
			g = g[:per]
		}
		out = append(out, g...)
	}
	return out, false
}

// lengthMSBOffsets returns, per shard file, the offsets of the first byte of every frame header.
func (b *backup) lengthMSBOffsets() map[string]map[int]bool {
	out := map[string]map[int]bool{}
	for _, f := range b.files {
		if f.class != "data-shard" && f.class != "delta-shard" {
			continue
		}
		m := map[int]bool{}
		off := 0
		for off+4 <= len(f.data) {
			m[off] = true
			l := int(f.data[off])<<24 | int(f.data[off+1])<<16 | int(f.data[off+2])<<8 | int(f.data[off+3])
			off += 4 + l
		}
		out[f.rel] = m
	}
	return out
}

func (b *backup) multiFaults(r *rand.Rand, concurr int) []fault {
	var shards []string
	for _, f := range b.files {
		if f.class == "data-shard" {
			shards = append(shards, f.rel)
		}
	}
	var fs []fault
	for _, k := range []int{concurr - 1, concurr, concurr + 1, len(shards)} {
		if k < 2 || k > len(shards) {
			continue
		}
		perm := r.Perm(len(shards))
		var sel []string
		for _, i := range perm[:k] {
			sel = append(sel, shards[i])
		}
		sort.Strings(sel)
		// the same bit flipped at the same offset of several shards (correlated damage; with equal-length
		// items the per-shard checksum changes are identical, so they cancel in any xor-combined check)
		var nonEmpty []string
		minLen := 1 << 30
		for _, rel := range sel {
			for _, bf := range b.files {
				if bf.rel == rel && len(bf.data) > 8 {
					nonEmpty = append(nonEmpty, rel)
					if len(bf.data) < minLen {
						minLen = len(bf.data)
					}
				}
			}
		}
		if len(nonEmpty) >= 2 {
			for t := 0; t < 6; t++ {
				fs = append(fs, fault{Op: "multi-flip", Class: "data-shard", Files: nonEmpty[:2+r.Intn(len(nonEmpty)-1)], Off: 4 + r.Intn(minLen-8), Val: r.Intn(8)})
			}
		}
		fs = append(fs, fault{Op: "multi-truncate", Class: "data-shard", Files: sel, Val: r.Intn(4)})
		fs = append(fs, fault{Op: "multi-delete", Class: "data-shard", Files: sel})
	}
	return fs
}

func runC11(c *rt.C) {
	r := c.Rng
	debug.SetGCPercent(20) // damaged length prefixes make the loader allocate up to 4 GiB at a time
	mem := []string{"go", "go", "poison", "pageguard"}[c.Index%4]
	delta := (c.Index/4)%2 == 1
	nKeys := pick(r, 1, 3, 8, 20, 60, 250)
	if c.Index%4 == 1 {
		nKeys = -pick(r, 4, 8, 16, 100, 400, 1000) // regular, consecutively numbered equal-length keys
		delta = false
	}
	nitro.DiskBlockSize = pick(r, 64, 4096, 512*1024)
	defer func() { nitro.DiskBlockSize = 512 * 1024 }()
	dir := filepath.Join(c.Tmp, "bk")
	b := makeBackup(c, r, mem, delta, nKeys, dir)
	if b == nil {
		return
	}
	// readers allocate one DiskBlockSize buffer per shard file: keep the (many) damaged loads cheap
	nitro.DiskBlockSize = pick(r, 64, 512, 4096)
	// the untouched backup must load exactly
	if oc, d := b.tryLoad(2); oc != "exact" {
		c.Inconclusive("untouched backup does not load exactly (C05's oracle): " + oc + " " + d)
		return
	}
	total := 0
	for _, f := range b.files {
		total += len(f.data)
	}
	zc := b.zeroChecksumShards()
	c.Count("nonempty_shards_with_recorded_checksum_0", int64(zc))
	if zc > 0 {
		c.Sig("backup-has-zero-checksum-shard")
	}
	budget := 1500
	if c.Tier == "thorough" {
		budget = 5000
	}
	// the complete single-fault space for every 8th thorough backup, if it is small enough (<= 2 KiB in all)
	exhaustiveCase := c.Index%8 == 2 && c.Tier == "thorough" && total <= 2048 // index%4 == 2: poison memory, where huge bogus lengths are cheap
	if exhaustiveCase {
		budget = 0
	}
	faults, exh := b.singleFaults(r, budget)
	if mem == "go" {
		// A fault in the most significant byte of a frame's length prefix makes the loader allocate
		// 16 MiB - 4 GiB, which the Go allocator has to zero (0.1 - 4 s each). They form one
		// equivalence class (huge length, then EOF): keep a handful per backup in Go-managed mode;
		// the user-managed cases (cheap mmap) keep all of them.
		msb := b.lengthMSBOffsets()
		kept, huge := faults[:0], 0
		for _, f := range faults {
			if (f.Op == "flip" || f.Op == "set") && msb[f.File][f.Off] {
				huge++
				if huge > 3 {
					exh = false
					continue
				}
			}
			kept = append(kept, f)
		}
		faults = kept
	}
	concs := []int{1, 2, 3, 8, 16}
	outcomes := map[string]int{}
	for i, f := range faults {
		conc := concs[(i+c.Index)%len(concs)]
		undo := b.apply(f)
		oc, d := b.tryLoad(conc)
		undo()
		c.Evals(1)
		outcomes[oc]++
		c.Sig("%s/%s/%s/conc=%d/delta=%v", f.Class, f.Op, oc, conc, delta)
		switch oc {
		case "error", "exact":
		case "inconclusive":
			c.Inconclusive(d + " (" + f.String() + ")")
		default:
			c.Violate(oc+"/"+f.Class+"/"+f.Op, fmt.Sprintf("%s; load concurrency %d; %s", f.String(), conc, d),
				map[string]interface{}{"fault": f, "load_concurrency": conc, "mem": mem, "delta": delta, "stored_items": len(b.want), "files": fileSummary(b)})
		}
		if oc == "stuck" || c.Failed() && len(outcomes) > 0 && outcomes["stuck"]+outcomes["panic"]+outcomes["wrong"] >= 6 {
			break // enough witnesses from this backup (stuck loads also leak their goroutine)
		}
	}
	if outcomes["stuck"] == 0 {
		for _, conc := range []int{1, 2, 3, 8} {
			for _, f := range b.multiFaults(r, conc) {
				undo := b.apply(f)
				oc, d := b.tryLoad(conc)
				undo()
				c.Evals(1)
				outcomes[oc]++
				c.Sig("multi/%s/k=%d/%s/conc=%d", f.Op, len(f.Files), oc, conc)
				if oc == "stuck" || oc == "panic" || oc == "wrong" {
					c.Violate(oc+"/"+f.Class+"/"+f.Op, fmt.Sprintf("%s (%d shard files damaged at once); load concurrency %d; %s", f.Op, len(f.Files), conc, d),
						map[string]interface{}{"fault": f, "load_concurrency": conc, "mem": mem, "delta": delta})
				}
				if oc == "stuck" {
					break
				}
			}
		}
	}
	for k, v := range outcomes {
		c.Count("outcome_"+k, int64(v))
	}
	if exh {
		c.Count("backups_with_exhaustive_single_fault_space", 1)
	}
	c.Count("bytes_in_backup", int64(total))
	c.Sample(map[string]interface{}{"mem": mem, "delta": delta, "stored_items": len(b.want), "files": fileSummary(b), "faults_applied": len(faults), "single_fault_space_exhausted": exh, "outcomes": outcomes,
		"example_fault": faults[len(faults)/2].String()})
}

func fileSummary(b *backup) map[string]int {
	m := map[string]int{}
	for _, f := range b.files {
		m[f.rel] = len(f.data)
	}
	return m
}

var _ = json.Marshal

func init() {
	rt.Register(&rt.Prop{
		ID: "C11", Level: "fault_enumeration",
		Technique: "fault injection with runtime monitoring: enumerated single faults (bit flips, byte overwrites, every truncation length, deletion) and multi-shard faults applied to real backups; each outcome classified as error / exact / wrong / panic / stuck (stuck decided from a goroutine profile: caller parked in channel send and no loader goroutine left)",
		Rule: "each case stores one small multi-version database (1-20 keys, 16 data shards + manifests, with delta interleaving on every second group of cases and a churn goroutine so delta shards are non-empty; DiskBlockSize 64..512Ki; Go/poison/pageguard memory) and applies single faults to every file class (data shard, delta shard, files.json, checksums.json, their delta counterparts, nitro.json): every deletion, and a stratified seeded sample of {flip each bit, set 0x00, set 0xFF at each byte; truncate to each length} (quick ≈1500 per backup, thorough ≈5000, and the complete single-fault space for every 8th thorough backup of at most 2 KiB), load concurrency rotating over 1,2,3,8,16; then k∈{concurr-1,concurr,concurr+1,all} shard files truncated or deleted at once for concurr∈{1,2,3,8}. " +
			"evaluations = damaged loads; distinct = (file class, operator, outcome, load concurrency, delta) tuples",
		Assumptions: []string{"an error return is always acceptable; success is acceptable only with exactly the stored items and Count", "the fault model is damage to a directory written by a successful StoreToDisk (appending bytes is not modelled)"},
		Cases: func(t string) int {
			if t == "thorough" {
				return 64
			}
			return 16
		},
		Batch:       func(t string) int { return 1 },
		Procs:       8,
		MinSigs:     20,
		CaseTimeout: 20 * time.Minute,
		Exhaustive:  func(t string) bool { return false },
		Run:         runC11,
	})
}
