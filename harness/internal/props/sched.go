package props

import (
	"fmt"
	"math/rand"
	"unsafe"

	"github.com/couchbase/nitro/skiplist"
)

// Serialized schedule controller. Every actor is a goroutine, but exactly one
// runs between two hook points; at each point the running actor hands control
// back and the controller picks who continues. Choice sequences are enumerated
// depth-first by re-execution (stateless), or sampled with a seeded PRNG.
//
// Every shared access of the barrier is a single atomic preceded by a hook
// point and Go is preemptive, so each serialized schedule is a feasible
// execution of the real code. The one blocking primitive (FlushSession's
// mutex) is modelled from its two points: an actor waiting at "before Lock" is
// not enabled while another actor is between "locked" and the return of its
// FlushSession call.

type sActor struct {
	id      int
	name    string
	resume  chan struct{}
	started bool
	done    bool
	atPoint int
	inFlush bool // between VpFlushLocked and the return of FlushSession
	panicV  interface{}
	prog    func(a *sActor)
}

type sYield struct {
	a     *sActor
	point int
	done  bool
}

type sStep struct {
	Actor int
	Point int
}

type sCtl struct {
	actors  []*sActor
	cur     *sActor
	yieldc  chan sYield
	points  map[int]bool // scheduling points
	trace   []sStep
	choices []sChoice
	prefix  []int
	rng     *rand.Rand // non-nil: random choice beyond prefix
	maxStep int
	aborted bool
	noYield bool // set by the running actor around calls inside which it must not park (it would hold a mutex)
}

type sChoice struct{ idx, n int }

const pointCallReturn = 1000 // pseudo point: an API call of the actor returned

func (c *sCtl) hook(id int, arg unsafe.Pointer) {
	a := c.cur
	if a == nil || !c.points[id] || c.noYield {
		return
	}
	if id == skiplist.VpFlushLocked {
		a.inFlush = true
	}
	a.atPoint = id
	c.yieldc <- sYield{a: a, point: id}
	<-a.resume
}

// ret is called by actor programs after each API call returns. It is pure
// bookkeeping (the FlushSession mutex is released by now), not a scheduling
// point: nothing shared happens between the return of one call and the first
// hook point of the next.
func (a *sActor) ret(c *sCtl) {
	a.inFlush = false
}

func (c *sCtl) enabled() []*sActor {
	lockHeld := false
	for _, a := range c.actors {
		if a.inFlush && !a.done {
			lockHeld = true
		}
	}
	var en []*sActor
	for _, a := range c.actors {
		if a.done {
			continue
		}
		if a.started && a.atPoint == skiplist.VpFlushBeforeLock && lockHeld {
			continue
		}
		en = append(en, a)
	}
	return en
}

// run executes one schedule. Returns false if the schedule was cut (step bound).
func (c *sCtl) run() bool {
	c.trace = c.trace[:0]
	c.choices = c.choices[:0]
	for step := 0; ; step++ {
		en := c.enabled()
		if len(en) == 0 {
			allDone := true
			for _, a := range c.actors {
				if !a.done {
					allDone = false
				}
			}
			if !allDone {
				c.aborted = true // deadlock in the model: should not happen
			}
			return allDone
		}
		if step > c.maxStep {
			c.aborted = true
			// let everybody run to completion without control
			c.points = map[int]bool{}
			for _, a := range c.actors {
				if !a.done {
					c.cur = a
					if !a.started {
						a.started = true
						go c.runActor(a)
					} else {
						a.resume <- struct{}{}
					}
					for {
						y := <-c.yieldc
						if y.done {
							break
						}
						y.a.resume <- struct{}{}
					}
				}
			}
			return false
		}
		idx := 0
		if step < len(c.prefix) {
			idx = c.prefix[step]
			if idx >= len(en) {
				idx = len(en) - 1
			}
		} else if c.rng != nil {
			idx = c.rng.Intn(len(en))
		}
		c.choices = append(c.choices, sChoice{idx, len(en)})
		a := en[idx]
		c.cur = a
		if !a.started {
			a.started = true
			go c.runActor(a)
		} else {
			a.resume <- struct{}{}
		}
		y := <-c.yieldc
		c.cur = nil
		if y.done {
			y.a.done = true
			c.trace = append(c.trace, sStep{y.a.id, -1})
		} else {
			c.trace = append(c.trace, sStep{y.a.id, y.point})
		}
	}
}

func (c *sCtl) runActor(a *sActor) {
	defer func() {
		if p := recover(); p != nil {
			a.panicV = p
		}
		c.yieldc <- sYield{a: a, done: true}
	}()
	a.prog(a)
}

// nextPrefix computes the next DFS prefix from the choices of the last run.
func nextPrefix(ch []sChoice) []int {
	for k := len(ch) - 1; k >= 0; k-- {
		if ch[k].idx+1 < ch[k].n {
			p := make([]int, k+1)
			for i := 0; i < k; i++ {
				p[i] = ch[i].idx
			}
			p[k] = ch[k].idx + 1
			return p
		}
	}
	return nil
}

func traceSig(t []sStep) string {
	var h uint64 = 1469598103934665603
	for _, s := range t {
		for _, b := range []byte(fmt.Sprintf("%d:%d|", s.Actor, s.Point)) {
			h ^= uint64(b)
			h *= 1099511628211
		}
	}
	return fmt.Sprintf("%x", h)
}

func traceString(t []sStep, names []string) []string {
	pn := map[int]string{
		skiplist.VpAcqLoaded: "acq.loaded", skiplist.VpAcqIncremented: "acq.incremented", skiplist.VpRelBeforeDec: "rel.before-dec",
		skiplist.VpRelLatched: "rel.latched", skiplist.VpRelEnqueued: "rel.enqueued", skiplist.VpRelCleanupDone: "rel.cleanup-done",
		skiplist.VpRelUnlocked: "rel.unlocked", skiplist.VpCleanupLoop: "cleanup.loop", skiplist.VpCleanupBeforeDestruct: "cleanup.before-destruct",
		skiplist.VpFlushBeforeLock: "flush.before-lock", skiplist.VpFlushLocked: "flush.locked", skiplist.VpFlushSwapped: "flush.swapped",
		skiplist.VpFlushBeforeOffset: "flush.before-offset", skiplist.VpFlushBeforeRelease: "flush.before-release", pointCallReturn: "call-returned", -1: "done",
	}
	var out []string
	for _, s := range t {
		out = append(out, fmt.Sprintf("%s@%s", names[s.Actor], pn[s.Point]))
	}
	return out
}
