package props

import (
	"bytes"
	"fmt"
	"hash/crc32"
	"unsafe"

	"github.com/couchbase/nitro"
	"github.com/couchbase/nitro/nodetable"
	"github.com/couchbase/nitro/skiplist"

	"nitroverif/internal/rt"
)

// C20 — node table vs map, node list vs list.

type ntObj struct {
	key []byte
	id  int
}

func runC20(c *rt.C) {
	if c.Index%4 == 3 {
		runC20List(c)
		return
	}
	r := c.Rng
	hashes := []struct {
		name string
		fn   nodetable.HashFn
	}{
		{"const", func([]byte) uint32 { return 7 }},
		{"mod2", func(k []byte) uint32 { return crc32.ChecksumIEEE(k) % 2 }},
		{"mod7", func(k []byte) uint32 { return crc32.ChecksumIEEE(k) % 7 }},
		{"crc32", func(k []byte) uint32 { return crc32.ChecksumIEEE(k) }},
		{"firstbyte", func(k []byte) uint32 { return uint32(k[len(k)-1]) & 3 }},
	}
	h := hashes[(c.Index/4)%len(hashes)]
	nKeys := pick(r, 1, 2, 3, 4, 6, 8, 16, 64)
	nOps := 400 + r.Intn(1600)
	if c.Tier == "quick" {
		nOps = 200 + r.Intn(600)
	}
	eq := func(p unsafe.Pointer, k []byte) bool { return bytes.Equal((*ntObj)(p).key, k) }
	nt := nodetable.New(h.fn, eq)
	defer nt.Close()
	model := map[string]*ntObj{}
	var keep []*ntObj // keep objects alive (table stores raw uintptrs)
	var trace []string
	nextID := 0
	// shape signature: per bucket (#entries) histogram
	shape := func() string {
		b := map[uint32]int{}
		for k := range model {
			b[h.fn([]byte(k))]++
		}
		hist := [5]int{}
		for _, n := range b {
			if n > 4 {
				n = 4
			}
			hist[n]++
		}
		return fmt.Sprintf("%v", hist[1:])
	}
	fail := func(kind, f string, a ...interface{}) {
		t := trace
		if len(t) > 80 {
			t = t[len(t)-80:]
		}
		c.Violate(kind, fmt.Sprintf(f, a...), map[string]interface{}{"hash": h.name, "keys": nKeys, "ops": t})
	}
	for op := 0; op < nOps && !c.Failed(); op++ {
		kid := r.Intn(nKeys)
		key := []byte(fmt.Sprintf("key-%d", kid))
		cur := model[string(key)]
		before := shape()
		switch x := r.Intn(10); {
		case x < 4:
			nextID++
			o := &ntObj{key: key, id: nextID}
			keep = append(keep, o)
			upd, old := nt.Update(key, unsafe.Pointer(o))
			trace = append(trace, fmt.Sprintf("Update(%d)->%v", kid, upd))
			c.Sig("update/%s/present=%v/%s", h.name, cur != nil, before)
			if upd != (cur != nil) {
				fail("update-result", "Update(%s) reported updated=%v, model has key present=%v", key, upd, cur != nil)
			} else if cur != nil && (*ntObj)(old) != cur {
				fail("update-old", "Update(%s) returned old pointer %p, model has %p", key, old, cur)
			} else if cur == nil && old != nil {
				fail("update-old", "Update(%s) of an absent key returned a non-nil old pointer", key)
			}
			model[string(key)] = o
		case x < 7:
			ok, p := nt.Remove(key)
			trace = append(trace, fmt.Sprintf("Remove(%d)->%v", kid, ok))
			c.Sig("remove/%s/present=%v/%s", h.name, cur != nil, before)
			if ok != (cur != nil) {
				fail("remove-result", "Remove(%s) returned %v, model has key present=%v", key, ok, cur != nil)
			} else if ok && (*ntObj)(p) != cur {
				fail("remove-ptr", "Remove(%s) returned pointer %p, model has %p (object %d)", key, p, cur, cur.id) // a wrong pointer is never dereferenced
			} else if !ok && p != nil {
				fail("remove-ptr", "Remove(%s) failed but returned a pointer", key)
			}
			delete(model, string(key))
		default:
			p := nt.Get(key)
			trace = append(trace, fmt.Sprintf("Get(%d)->%v", kid, p != nil))
			c.Sig("get/%s/present=%v/%s", h.name, cur != nil, before)
			if (p != nil) != (cur != nil) {
				fail("get-result", "Get(%s) found=%v, model has key present=%v", key, p != nil, cur != nil)
			} else if p != nil && (*ntObj)(p) != cur {
				fail("get-ptr", "Get(%s) returned pointer %p, model has %p (object %d)", key, p, cur, cur.id)
			}
		}
		if nt.ItemsCount() != int64(len(model)) {
			fail("items-count", "ItemsCount()=%d, model has %d keys", nt.ItemsCount(), len(model))
		}
		if nt.MemoryInUse() != int64(42*len(model)) {
			fail("memory-in-use", "MemoryInUse()=%d, expected 42*%d", nt.MemoryInUse(), len(model))
		}
		c.Evals(1)
	}
	// final: every model key retrievable
	for k, o := range model {
		if p := nt.Get([]byte(k)); (*ntObj)(p) != o {
			fail("final-get", "final Get(%s) does not return the model's pointer", k)
		}
	}
	c.Sample(map[string]interface{}{"kind": "nodetable", "hash": h.name, "keys": nKeys, "first_ops": firstN(trace, 30)})
	_ = keep
}

func runC20List(c *rt.C) {
	r := c.Rng
	// four databases so that up to four distinct nodes can carry equal key bytes
	const nDB = 4
	var ws [nDB]*nitro.Writer
	for i := range ws {
		db := OpenDB(DBOpt{Mem: "go"})
		defer db.N.Close()
		ws[i] = db.N.NewWriter()
	}
	type ent struct {
		item []byte
		n    *skiplist.Node
	}
	nl := nitro.NewNodeList(nil)
	var model []ent   // list order, head first
	var removed []ent // nodes taken off the list earlier: re-adding them must behave like adding any node
	used := map[string]int{}
	var trace []string
	nOps := 300
	nextKey := 0
	fail := func(kind, f string, a ...interface{}) {
		c.Violate(kind, fmt.Sprintf(f, a...), map[string]interface{}{"ops": trace})
	}
	// acyclic reports whether the chain from Head() ends within the number of nodes ever handed
	// to the list; Keys()/Remove() on a cyclic chain would never return (and Keys() would grow
	// without bound), so the chain is walked read-only with a step bound before every call.
	acyclic := func() bool {
		bound := len(model) + len(removed) + 8
		n := nl.Head()
		for steps := 0; n != nil; steps++ {
			if steps > bound {
				return false
			}
			n = n.GetLink()
		}
		return true
	}
	for op := 0; op < nOps && !c.Failed(); op++ {
		if !acyclic() {
			fail("list-cycle", "the chain from Head() does not end within %d links (%d nodes are on the list per the model): Keys() and Remove() would never return", len(model)+len(removed)+8, len(model))
			break
		}
		switch x := r.Intn(10); {
		case x < 1 && len(removed) > 0:
			// re-add a node that was removed earlier (its link field still holds whatever Remove left there)
			i := r.Intn(len(removed))
			e := removed[i]
			removed = append(removed[:i], removed[i+1:]...)
			nl.Add(e.n)
			model = append([]ent{e}, model...)
			trace = append(trace, fmt.Sprintf("Add(%s) again", e.item))
			c.Sig("re-add/len=%d", min(len(model), 6))
		case x < 5:
			var item []byte
			if len(model) > 0 && r.Intn(3) == 0 {
				item = model[r.Intn(len(model))].item // duplicate bytes, different node
			} else {
				nextKey++
				// keys of mixed lengths, some a prefix of others: Remove must compare whole keys and keep its
				// predecessor pointer whatever it rejects on the way
				switch nextKey % 4 {
				case 0:
					item = []byte(fmt.Sprintf("n%04d", nextKey))
				case 1:
					item = []byte(fmt.Sprintf("n%d", nextKey))
				case 2:
					item = []byte(fmt.Sprintf("n%04d", nextKey-2) + "/longer-key")
				default:
					item = []byte(fmt.Sprintf("%c", 'a'+nextKey%26))
					if used[string(item)] > 0 {
						item = []byte(fmt.Sprintf("%c%d", 'a'+nextKey%26, nextKey))
					}
				}
			}
			if used[string(item)] >= nDB {
				break
			}
			n := ws[used[string(item)]].Put2(item)
			used[string(item)]++
			if n == nil {
				fail("put", "Put2 of a new key failed")
				break
			}
			nl.Add(n)
			model = append([]ent{{item, n}}, model...)
			trace = append(trace, fmt.Sprintf("Add(%s)", item))
			c.Sig("add/len=%d/dups=%d", min(len(model), 6), used[string(item)])
		case x < 8:
			var key []byte
			pos := -1
			if len(model) > 0 && r.Intn(5) > 0 {
				key = model[r.Intn(len(model))].item
				for i, e := range model {
					if bytes.Equal(e.item, key) {
						pos = i
						break
					}
				}
			} else {
				key = []byte("absent")
			}
			dups := 0
			for _, e := range model {
				if bytes.Equal(e.item, key) {
					dups++
				}
			}
			n := nl.Remove(key)
			trace = append(trace, fmt.Sprintf("Remove(%s)->%v", key, n != nil))
			c.Sig("remove/pos=%s/len=%d/dups=%d", posClass(pos, len(model)), min(len(model), 6), dups)
			if (n != nil) != (pos >= 0) {
				fail("list-remove", "Remove(%s) returned node=%v, model position %d", key, n != nil, pos)
				break
			}
			if n != nil {
				if n != model[pos].n {
					fail("list-remove-node", "Remove(%s) did not return the first node with an equal key (%d nodes carry it)", key, dups)
				}
				removed = append(removed, model[pos])
				model = append(model[:pos:pos], model[pos+1:]...)
			}
		default:
			keys := nl.Keys()
			if len(keys) != len(model) {
				fail("list-keys", "Keys() has %d entries, model %d", len(keys), len(model))
				break
			}
			for i := range keys {
				if !bytes.Equal(keys[i], model[i].item) {
					fail("list-keys", "Keys()[%d]=%s, model %s", i, keys[i], model[i].item)
					break
				}
			}
			hd := nl.Head()
			if (hd == nil) != (len(model) == 0) {
				fail("list-head", "Head() nil=%v with %d model entries", hd == nil, len(model))
			} else if hd != nil && hd != model[0].n {
				fail("list-head", "Head() is not the most recently added node")
			}
			c.Sig("keys/len=%d", min(len(model), 6))
		}
		c.Evals(1)
	}
	c.Sample(map[string]interface{}{"kind": "nodelist", "first_ops": firstN(trace, 30)})
}

func posClass(pos, n int) string {
	switch {
	case pos < 0:
		return "absent"
	case pos == 0:
		return "head"
	case pos == n-1:
		return "tail"
	}
	return "middle"
}

func min(a, b int) int {
	if a < b {
		return a
	}
	return b
}

func init() {
	rt.Register(&rt.Prop{
		ID: "C20", Level: "exploration",
		Technique: "reference-model monitor (map / list) over seeded random operation sequences",
		Rule: "each case = one seeded random program of Update/Remove/Get over 1-64 keys against a Go map, hash function rotating over {constant, crc32 mod 2, mod 7, crc32, 2-bit}; every 4th case drives NodeList Add/Remove/Keys/Head against a slice (keys of 1-16 bytes, some a prefix of others, duplicates on different nodes). " +
			"evaluations = calls checked; distinct = (operation, hash, key present?, bucket-occupancy histogram before the call) tuples, i.e. distinct fast/slow table shapes operated on",
		Assumptions: []string{"single goroutine (the table is documented as not thread-safe)"},
		Cases: func(t string) int {
			if t == "thorough" {
				return 20000
			}
			return 400
		},
		Batch:   func(t string) int { return 200 },
		Procs:   8,
		MinSigs: 30,
		Run:     runC20,
	})
}
