package props

import (
	"fmt"
	"io"
	"math/rand"
	"os"
	"os/signal"
	"path/filepath"
	"runtime/debug"
	"sort"
	"strings"
	"sync"
	"sync/atomic"
	"syscall"
	"time"
	"unsafe"

	"github.com/couchbase/nitro"

	"nitroverif/internal/rt"
)

// C12 — StoreToDisk never reports success for, or leaves behind, a silently
// partial backup: injected write failures (byte budgets, file-size limits,
// manifest write failures) and crash images at every file-system mutation.

type c12db struct {
	db     *DB
	h      *Hist
	target *HSnap
	delta  bool
	// delta items inserted by the last successful tryLoadDir
	lastDeltaRestored int
	released          bool // delta mode: the harness no longer holds a reference of a target
}

func c12Build(c *rt.C, r *rand.Rand, mem string, delta bool, nKeys int) *c12db {
	db := OpenDB(DBOpt{Mem: mem, KV: r.Intn(2) == 0, Delta: delta})
	ops := 0
	nk := nKeys
	if nKeys > 0 {
		ops = nKeys + r.Intn(nKeys+1)
	} else {
		nk = 1
	}
	h := BuildHistory(r, db, HistOpt{NKeys: nk, Epochs: 1 + r.Intn(3), OpsPerEpoch: ops, KeepProb: 0, Writers: 2, DeleteBias: 30})
	t := h.Snaps[len(h.Snaps)-1]
	h.Snaps = nil
	return &c12db{db: db, h: h, target: t, delta: delta}
}

// store runs StoreToDisk on a fresh reference of the target snapshot; with
// delta, a churn goroutine runs so that the GC workers write delta items.
func (d *c12db) store(r *rand.Rand, dir string, conc int) error {
	if d.delta {
		// A snapshot the harness kept open would pin every item it sees: the collector could
		// never unlink one during the backup and no delta item would ever be written. So in
		// delta mode every backup stores a new snapshot whose only reference StoreToDisk
		// consumes (taken here, while no writer call is in flight).
		if !d.released {
			d.target.S.Close()
			d.released = true
		}
		d.target = d.h.Snapshot()
		d.h.Snaps = nil
	} else if !d.target.S.Open() { // StoreToDisk consumes one reference
		return fmt.Errorf("harness: Open refused")
	}
	stop := make(chan struct{})
	done := make(chan struct{})
	if d.delta {
		go func() {
			defer close(done)
			defer func() { recover() }()
			cr := rand.New(rand.NewSource(r.Int63()))
			for i := 0; i < 50; i++ {
				select {
				case <-stop:
					return
				default:
				}
				d.h.Mutate(cr, 1+d.h.NKeys/3, 70)
				s, _ := d.db.N.NewSnapshot()
				s.Close()
				d.db.N.GC()
			}
		}()
	} else {
		close(done)
	}
	// with delta the visitor is slowed down for its first items so that the churn really deletes
	// and collects items before they are visited: those then exist in the delta shards only
	var cb nitro.ItemCallback
	if d.delta {
		var n int32
		cb = func(*nitro.ItemEntry) {
			if k := atomic.AddInt32(&n, 1); k <= 300 && k%2 == 0 {
				time.Sleep(150 * time.Microsecond)
			}
		}
	}
	err := d.db.N.StoreToDisk(dir, d.target.S, conc, cb)
	close(stop)
	<-done
	return err
}

// tryLoadDir loads dir into a fresh instance of d's configuration.
func (d *c12db) tryLoadDir(dir string, conc int) (string, string) {
	b := &backup{dir: dir, want: d.target.Want, db: d.db}
	oc, detail := b.tryLoad(conc)
	d.lastDeltaRestored = b.lastDeltaRestored
	return oc, detail
}

// ---------------------------------------------------------------------------
// write-failure injection through the shard-file write interposer

type budgetWriter struct {
	mu       sync.Mutex
	budget   int64 // bytes that may still be written (shard files)
	failed   int   // writes that returned an error
	written  int64
	writes   int
	failPath map[string]bool
}

func (b *budgetWriter) write(fd *os.File, path string, p []byte) (int, error) {
	b.mu.Lock()
	defer b.mu.Unlock()
	b.writes++
	if int64(len(p)) <= b.budget {
		b.budget -= int64(len(p))
		b.written += int64(len(p))
		return fd.Write(p)
	}
	// the disk fills in the middle of this write: a short write, then ENOSPC
	n := int(b.budget)
	b.budget = 0
	if n > 0 {
		fd.Write(p[:n])
		b.written += int64(n)
	}
	b.failed++
	return n, syscall.ENOSPC
}

func c12Budget(c *rt.C) {
	r := c.Rng
	mem := []string{"go", "poison"}[c.Index%2]
	delta := (c.Index/2)%2 == 1
	nKeys := pick(r, 0, 3, 30, 300, 2000)
	block := pick(r, 64, 256, 4096, 65536)
	nitro.DiskBlockSize = block
	defer func() { nitro.DiskBlockSize = 512 * 1024 }()
	d := c12Build(c, r, mem, delta, nKeys)
	conc := pick(r, 1, 2, 8)
	// reference run: how many bytes does the backup write to shard files?
	ref := &budgetWriter{budget: 1 << 60}
	nitro.VerifSetFileWrite(ref.write)
	dir0 := filepath.Join(c.Tmp, "ref")
	err := d.store(r, dir0, conc)
	nitro.VerifSetFileWrite(nil)
	if err != nil {
		c.Inconclusive("reference StoreToDisk failed: " + err.Error())
		return
	}
	total := ref.written
	// terminator-flush lane (non-delta: the shard contents repeat exactly). The buffer size is chosen
	// so that one shard's records fit the writer's buffer with 0, 1 or 3 bytes to spare: the first
	// write(2) to that file is then the flush forced by the 4-byte terminator inside Close, and it fails.
	if !delta {
		var victimName string
		var size int64
		for i := 0; ; i++ {
			st, serr := os.Stat(filepath.Join(dir0, "data", fmt.Sprintf("shard-%d", i)))
			if serr != nil {
				break
			}
			if st.Size() > size {
				size, victimName = st.Size(), fmt.Sprintf("shard-%d", i)
			}
		}
		for _, spare := range []int{0, 1, 3} {
			if size < 8 {
				break
			}
			nitro.DiskBlockSize = int(size) - 4 + spare
			dir := filepath.Join(c.Tmp, fmt.Sprintf("t%d", spare))
			victim := filepath.Join(dir, "data", victimName)
			var fmu sync.Mutex
			failed, firstLen := 0, 0
			nitro.VerifSetFileWrite(func(fd *os.File, path string, p []byte) (int, error) {
				if path == victim {
					fmu.Lock()
					if failed == 0 {
						firstLen = len(p)
					}
					failed++
					fmu.Unlock()
					return 0, syscall.ENOSPC
				}
				return fd.Write(p)
			})
			err := d.store(r, dir, conc)
			nitro.VerifSetFileWrite(nil)
			c.Evals(1)
			outcome := "error-returned"
			if failed == 0 {
				outcome = "not-reached"
			} else if err == nil {
				oc, detail := d.tryLoadDir(dir, 2)
				outcome = "success+" + oc
				if oc != "exact" {
					c.Violate("silent-partial-backup/terminator-flush/"+oc, fmt.Sprintf("every write to data/%s failed (the first one, %d bytes, was the flush forced by the terminator inside Close: buffer of %d bytes, %d bytes of records) but StoreToDisk returned nil; loading the directory gives: %s %s", victimName, firstLen, nitro.DiskBlockSize, size-4, oc, detail),
						map[string]interface{}{"failed_file": "data/" + victimName, "disk_block_size": nitro.DiskBlockSize, "shard_bytes": size, "stored_items": len(d.target.Want), "mem": mem})
				}
			}
			c.Sig("terminator-flush/spare=%d/%s", spare, outcome)
			os.RemoveAll(dir)
		}
		nitro.DiskBlockSize = block
	}
	// budgets: every flush boundary +-1 for small totals, stratified otherwise, always incl. 0, total-1, last flush
	var budgets []int64
	seen := map[int64]bool{}
	add := func(b int64) {
		if b >= 0 && b < total && !seen[b] {
			seen[b] = true
			budgets = append(budgets, b)
		}
	}
	add(0)
	add(total - 1)
	add(total - 4)
	add(total - 5)
	nB := 24
	if c.Tier == "thorough" {
		nB = 160
	}
	for i := 0; i < nB; i++ {
		add(r.Int63n(total))
		add(int64(block) * int64(1+r.Intn(int(total)/block+1)))
		add(int64(block)*int64(1+r.Intn(int(total)/block+1)) - 1)
	}
	sort.Slice(budgets, func(i, j int) bool { return budgets[i] < budgets[j] })
	silent := 0
	for _, bud := range budgets {
		dir := filepath.Join(c.Tmp, fmt.Sprintf("b%d", bud))
		bw := &budgetWriter{budget: bud}
		manifestFail := r.Intn(3) == 0 // every third run the manifests cannot be written either once the disk is full
		nitro.VerifSetFileWrite(bw.write)
		nitro.VerifSetHook(func(id int, arg unsafe.Pointer) {
			if id == nitro.VpStoreBeforeManifest && manifestFail {
				bw.mu.Lock()
				full := bw.failed > 0
				bw.mu.Unlock()
				if full {
					p := *(*string)(arg)
					os.Remove(p)
					os.Mkdir(p, 0755) // WriteFile on a directory fails: the manifest cannot be written
				}
			}
		})
		err := d.store(r, dir, conc)
		nitro.VerifSetFileWrite(nil)
		nitro.VerifSetHook(nil)
		c.Evals(1)
		failed := bw.failed
		outcome := "error-returned"
		if err == nil {
			if failed == 0 {
				outcome = "no-failure-consumed"
			} else {
				oc, detail := d.tryLoadDir(dir, 2)
				outcome = "success+" + oc
				if oc != "exact" {
					silent++
					c.Violate("silent-partial-backup/"+oc, fmt.Sprintf("writes to the shard files started failing after %d of %d bytes (%d writes returned ENOSPC) but StoreToDisk returned nil; loading the directory gives: %s %s", bud, total, failed, oc, detail),
						map[string]interface{}{"budget": bud, "total_shard_bytes": total, "failed_writes": failed, "disk_block_size": block, "delta": delta, "concurrency": conc, "stored_items": len(d.target.Want), "mem": mem})
				}
			}
		}
		cls := "mid"
		if bud == 0 {
			cls = "zero"
		} else if total-bud <= int64(block) {
			cls = "last-block"
		}
		c.Sig("budget/%s/%s/delta=%v/block=%d/manifestfail=%v", cls, outcome, delta, block, manifestFail)
		os.RemoveAll(dir)
		if silent >= 3 {
			break
		}
	}
	// manifest-only failures: exactly one manifest file cannot be written (the path is occupied by a
	// directory, so ioutil.WriteFile fails), every shard write succeeds
	for _, victim := range []string{"nitro.json", "data/files.json", "data/checksums.json", "delta/files.json", "delta/checksums.json"} {
		if strings.HasPrefix(victim, "delta/") && !delta {
			continue
		}
		dir := filepath.Join(c.Tmp, "m-"+strings.ReplaceAll(victim, "/", "_"))
		hit := false
		nitro.VerifSetHook(func(id int, arg unsafe.Pointer) {
			if id == nitro.VpStoreBeforeManifest {
				p := *(*string)(arg)
				if rel, _ := filepath.Rel(dir, p); filepath.ToSlash(rel) == victim {
					os.Remove(p)
					os.MkdirAll(p, 0755)
					hit = true
				}
			}
		})
		err := d.store(r, dir, conc)
		nitro.VerifSetHook(nil)
		c.Evals(1)
		outcome := "error-returned"
		if !hit {
			outcome = "not-reached"
		} else if err == nil {
			oc, detail := d.tryLoadDir(dir, 2)
			outcome = "success+" + oc
			if oc != "exact" {
				c.Violate("silent-partial-backup/manifest/"+oc, fmt.Sprintf("the write of %s failed (path not writable) but StoreToDisk returned nil; loading the directory gives: %s %s", victim, oc, detail),
					map[string]interface{}{"failed_manifest": victim, "delta": delta, "stored_items": len(d.target.Want), "mem": mem})
			}
		}
		c.Sig("manifest-failure/%s/%s/delta=%v", victim, outcome, delta)
		os.RemoveAll(dir)
	}
	// close(2) failures: every write succeeds, but when one shard file is closed the kernel reports that
	// its data could not be written back (emulated: the file is truncated and the descriptor closed
	// behind the library's back right before its own Close, so that Close returns an error)
	for _, victimIdx := range []int{0, 1 + r.Intn(8), 15} {
		dir := filepath.Join(c.Tmp, fmt.Sprintf("cl%d", victimIdx))
		victim := filepath.Join(dir, "data", fmt.Sprintf("shard-%d", victimIdx))
		var fmu sync.Mutex
		fds := map[string]*os.File{}
		hit := false
		nitro.VerifSetFileWrite(func(fd *os.File, path string, p []byte) (int, error) {
			fmu.Lock()
			fds[path] = fd
			fmu.Unlock()
			return fd.Write(p)
		})
		nitro.VerifSetHook(func(id int, arg unsafe.Pointer) {
			if id == nitro.VpFileBeforeClose && *(*string)(arg) == victim {
				fmu.Lock()
				fd := fds[victim]
				fmu.Unlock()
				if fd != nil {
					if st, err := fd.Stat(); err == nil && st.Size() > 0 {
						fd.Truncate(st.Size() / 2)
						fd.Close()
						hit = true
					}
				}
			}
		})
		err := d.store(r, dir, conc)
		nitro.VerifSetFileWrite(nil)
		nitro.VerifSetHook(nil)
		c.Evals(1)
		outcome := "error-returned"
		if !hit {
			outcome = "not-reached"
		} else if err == nil {
			oc, detail := d.tryLoadDir(dir, 2)
			outcome = "success+" + oc
			if oc != "exact" {
				c.Violate("silent-partial-backup/close/"+oc, fmt.Sprintf("close(2) of data/shard-%d failed (its data was lost) but StoreToDisk returned nil; loading the directory gives: %s %s", victimIdx, oc, detail),
					map[string]interface{}{"failed_close": victim, "delta": delta, "stored_items": len(d.target.Want), "mem": mem})
			}
		}
		c.Sig("close-failure/%s/delta=%v", outcome, delta)
		os.RemoveAll(dir)
	}
	c.Count("byte_budgets_tried", int64(len(budgets)))
	c.Sample(map[string]interface{}{"kind": "byte-budget", "mem": mem, "delta": delta, "stored_items": len(d.target.Want), "disk_block_size": block, "total_shard_bytes": total, "budgets": len(budgets), "concurrency": conc})
}

// ---------------------------------------------------------------------------
// hook-free: RLIMIT_FSIZE makes real write(2)s fail with EFBIG

func c12Rlimit(c *rt.C) {
	r := c.Rng
	delta := c.Index%2 == 1
	nKeys := pick(r, 30, 300, 3000)
	block := pick(r, 64, 4096, 512*1024)
	nitro.DiskBlockSize = block
	defer func() { nitro.DiskBlockSize = 512 * 1024 }()
	d := c12Build(c, r, "go", delta, nKeys)
	signal.Ignore(syscall.SIGXFSZ)
	dir0 := filepath.Join(c.Tmp, "ref")
	if err := d.store(r, dir0, 2); err != nil {
		c.Inconclusive("reference StoreToDisk failed: " + err.Error())
		return
	}
	var maxShard int64
	filepath.Walk(dir0, func(p string, info os.FileInfo, err error) error {
		if err == nil && !info.IsDir() && strings.Contains(p, "shard-") && info.Size() > maxShard {
			maxShard = info.Size()
		}
		return nil
	})
	var old syscall.Rlimit
	syscall.Getrlimit(syscall.RLIMIT_FSIZE, &old)
	limits := []int64{0, 1, 3, 4, maxShard / 2, maxShard - 4, maxShard - 1}
	for i := 0; i < 6; i++ {
		limits = append(limits, r.Int63n(maxShard+1))
	}
	for _, lim := range limits {
		if lim < 0 || lim >= maxShard {
			continue
		}
		dir := filepath.Join(c.Tmp, fmt.Sprintf("l%d", lim))
		debug.SetGCPercent(-1) // nothing but the backup may hit the limit while it is lowered
		syscall.Setrlimit(syscall.RLIMIT_FSIZE, &syscall.Rlimit{Cur: uint64(lim), Max: old.Max})
		err := d.store(r, dir, 2)
		syscall.Setrlimit(syscall.RLIMIT_FSIZE, &old)
		debug.SetGCPercent(100)
		c.Evals(1)
		// did a write actually fail? a shard file that is shorter than in the reference run tells
		short := false
		filepath.Walk(dir, func(p string, info os.FileInfo, e error) error {
			if e == nil && !info.IsDir() && strings.Contains(p, "shard-") {
				rel, _ := filepath.Rel(dir, p)
				if ri, e2 := os.Stat(filepath.Join(dir0, rel)); e2 == nil && !d.delta && info.Size() < ri.Size() {
					short = true
				}
				if info.Size() >= lim && lim < maxShard && info.Size() == lim {
					short = true
				}
			}
			return nil
		})
		outcome := "error-returned"
		if err == nil {
			oc, detail := d.tryLoadDir(dir, 2)
			outcome = "success+" + oc
			if oc != "exact" {
				c.Violate("silent-partial-backup/"+oc, fmt.Sprintf("with a file-size limit of %d bytes (largest shard needs %d) StoreToDisk returned nil; loading the directory gives: %s %s", lim, maxShard, oc, detail),
					map[string]interface{}{"rlimit_fsize": lim, "largest_shard": maxShard, "disk_block_size": block, "delta": delta, "stored_items": len(d.target.Want), "a_shard_file_is_short": short})
			}
		}
		c.Sig("rlimit/%s/delta=%v/block=%d/short=%v", outcome, delta, block, short)
		os.RemoveAll(dir)
		if c.Failed() {
			break
		}
	}
	c.Sample(map[string]interface{}{"kind": "rlimit-fsize", "delta": delta, "stored_items": len(d.target.Want), "disk_block_size": block, "largest_shard": maxShard, "limits": limits})
}

// ---------------------------------------------------------------------------
// crash images

type imageCap struct {
	mu     sync.Mutex
	src    string
	dst    string
	n      int
	labels []string
	limit  int
}

func copyTree(src, dst string) {
	filepath.Walk(src, func(p string, info os.FileInfo, err error) error {
		if err != nil {
			return nil
		}
		rel, _ := filepath.Rel(src, p)
		if info.IsDir() {
			os.MkdirAll(filepath.Join(dst, rel), 0755)
			return nil
		}
		in, e := os.Open(p)
		if e != nil {
			return nil
		}
		defer in.Close()
		out, e := os.Create(filepath.Join(dst, rel))
		if e != nil {
			return nil
		}
		io.Copy(out, in)
		out.Close()
		return nil
	})
}

// snap copies the directory as it is on disk right now (caller holds ic.mu).
func (ic *imageCap) snap(label string) string {
	if ic.n >= ic.limit {
		return ""
	}
	d := filepath.Join(ic.dst, fmt.Sprintf("img%04d", ic.n))
	ic.n++
	ic.labels = append(ic.labels, label)
	copyTree(ic.src, d)
	return d
}

func c12Crash(c *rt.C) {
	r := c.Rng
	mem := []string{"go", "poison"}[c.Index%2]
	delta := (c.Index/2)%2 == 1
	nKeys := pick(r, 0, 2, 20, 200)
	block := pick(r, 64, 256, 4096, 65536)
	nitro.DiskBlockSize = block
	defer func() { nitro.DiskBlockSize = 512 * 1024 }()
	d := c12Build(c, r, mem, delta, nKeys)
	conc := pick(r, 1, 2, 8)
	dir := filepath.Join(c.Tmp, "bk")
	os.MkdirAll(dir, 0755)
	limit := 400
	if c.Tier == "thorough" {
		limit = 3000
	}
	ic := &imageCap{src: dir, dst: filepath.Join(c.Tmp, "images"), limit: limit}
	os.MkdirAll(ic.dst, 0755)
	var derived []string // images with an empty manifest (death between open(O_TRUNC) and write)
	// every shard write goes through the interposer under the capture mutex: the copy taken
	// before the write is an instant that really existed
	nitro.VerifSetFileWrite(func(fd *os.File, path string, p []byte) (int, error) {
		ic.mu.Lock()
		defer ic.mu.Unlock()
		rel, _ := filepath.Rel(dir, path)
		ic.snap("before write of " + fmt.Sprint(len(p)) + " bytes to " + rel)
		return fd.Write(p)
	})
	nitro.VerifSetHook(func(id int, arg unsafe.Pointer) {
		switch id {
		case nitro.VpStoreBeforeManifest, nitro.VpStoreAfterManifest, nitro.VpFileBeforeFlush, nitro.VpFileBeforeClose, nitro.VpFileClosed:
			p := *(*string)(arg)
			rel, _ := filepath.Rel(dir, p)
			name := map[int]string{nitro.VpStoreBeforeManifest: "before manifest write ", nitro.VpStoreAfterManifest: "after manifest write ", nitro.VpFileBeforeFlush: "before final flush of ",
				nitro.VpFileBeforeClose: "before close of ", nitro.VpFileClosed: "after close of "}[id]
			ic.mu.Lock()
			img := ic.snap(name + rel)
			if id == nitro.VpStoreBeforeManifest && img != "" && ic.n < ic.limit {
				// derived: the manifest has been created/truncated but nothing written yet
				dd := filepath.Join(ic.dst, fmt.Sprintf("img%04d", ic.n))
				ic.n++
				ic.labels = append(ic.labels, "DERIVED: "+rel+" exists but is empty (death between open and write)")
				copyTree(img, dd)
				os.MkdirAll(filepath.Dir(filepath.Join(dd, rel)), 0755)
				os.WriteFile(filepath.Join(dd, rel), nil, 0644)
				derived = append(derived, dd)
			}
			ic.mu.Unlock()
		case nitro.VpStoreReturning:
			ic.mu.Lock()
			ic.snap("StoreToDisk body finished, deferred closes not yet run")
			ic.mu.Unlock()
		}
	})
	err := d.store(r, dir, conc)
	nitro.VerifSetFileWrite(nil)
	nitro.VerifSetHook(nil)
	if err != nil {
		c.Inconclusive("StoreToDisk failed without injected faults: " + err.Error())
		return
	}
	// the final directory must load exactly
	if oc, detail := d.tryLoadDir(dir, 2); oc != "exact" {
		c.Violate("complete-backup-"+oc, "the completed backup does not load to the stored snapshot: "+detail, nil)
		return
	}
	deltaOnly := d.lastDeltaRestored
	c.Count("delta_only_items_in_crash_backups", int64(deltaOnly))
	outcomes := map[string]int{}
	for i := 0; i < ic.n; i++ {
		img := filepath.Join(ic.dst, fmt.Sprintf("img%04d", i))
		oc, detail := d.tryLoadDir(img, []int{1, 2, 8}[i%3])
		c.Evals(1)
		outcomes[oc]++
		lbl := ic.labels[i]
		cls := strings.SplitN(lbl, " of ", 2)[0]
		if strings.HasPrefix(lbl, "DERIVED") {
			cls = "derived-empty-manifest"
		} else if strings.Contains(lbl, "manifest") {
			cls = strings.Join(strings.Fields(lbl)[:3], " ") + " " + filepath.Base(lbl)
		} else if strings.HasPrefix(lbl, "before write") {
			cls = "before shard write"
		}
		c.Sig("image/%s/%s/delta=%v/delta-only-items=%v", cls, oc, delta, deltaOnly > 0)
		if oc != "error" && oc != "exact" {
			if oc == "inconclusive" {
				c.Inconclusive(detail)
				continue
			}
			c.Violate("crash-image/"+oc, fmt.Sprintf("process death at crash point #%d (%s): LoadFromDisk of what is on disk gives %s: %s", i, lbl, oc, detail),
				map[string]interface{}{"crash_point": i, "label": lbl, "of_points": ic.n, "delta": delta, "disk_block_size": block, "concurrency": conc, "stored_items": len(d.target.Want), "mem": mem})
			if outcomes["wrong"]+outcomes["stuck"]+outcomes["panic"] >= 3 {
				break
			}
		}
		os.RemoveAll(img)
	}
	for k, v := range outcomes {
		c.Count("image_"+k, int64(v))
	}
	c.Count("crash_images", int64(ic.n))
	if ic.n >= ic.limit {
		c.Count("image_limit_reached", 1)
	}
	ex := ""
	if len(ic.labels) > 0 {
		ex = ic.labels[len(ic.labels)/2]
	}
	c.Sample(map[string]interface{}{"kind": "crash-images", "mem": mem, "delta": delta, "stored_items": len(d.target.Want), "disk_block_size": block, "concurrency": conc,
		"crash_points": ic.n, "derived_images": len(derived), "outcomes": outcomes, "example_point": ex})
}

func runC12(c *rt.C) {
	switch c.Index % 5 {
	case 0, 1:
		c12Budget(c)
	case 2:
		c12Rlimit(c)
	default:
		c12Crash(c)
	}
}

func init() {
	rt.Register(&rt.Prop{
		ID: "C12", Level: "fault_enumeration",
		Technique: "fault injection with runtime monitoring: (a) write failures through the shard-file write interposer (byte budgets; disk-full manifests) and hook-free through RLIMIT_FSIZE, with an injected-fault ledger; (b) crash images captured under one mutex before every file-system mutation of StoreToDisk and each fed to LoadFromDisk",
		Rule: "case index mod 5: 0,1 = byte budgets: a reference run measures the bytes written to shard files, then budgets {0, total-1, total-4, total-5, every DiskBlockSize boundary and boundary-1 sampled, random} make every later write fail with a short write + ENOSPC (every third run the manifests cannot be written either), plus runs in which exactly one manifest file (nitro.json, files.json, checksums.json and their delta counterparts) cannot be written while every shard write succeeds, and runs in which the close(2) of one shard file fails after its data was lost, and (non-delta) runs whose buffer size makes the first write to one shard the flush forced by the terminator inside Close, which fails; if a failure was consumed and StoreToDisk returns nil the directory must load to exactly the stored snapshot. 2 = the same through RLIMIT_FSIZE (real write(2) failing with EFBIG, no hooks). 3,4 = crash images: the directory is copied before every shard write, before/after every manifest write, before the final flush, before and after the close of every shard file and when the body of StoreToDisk has finished, plus derived images with an empty manifest; every image must load with an error or exactly the stored snapshot. Databases 0-3000 items, DiskBlockSize 64..64Ki, concurrency 1-8, delta on/off (with churn so delta shards are written), Go/poison memory. " +
			"evaluations = faulted backups + images loaded; distinct = (fault class, outcome, delta, block size) tuples",
		Assumptions: []string{"process death, not power loss: bytes handed to write(2) survive, bytes still in the bufio buffer do not", "the image 'manifest exists but is empty' is derived (ioutil.WriteFile opens with O_TRUNC and writes inside the standard library)", "backups go into an empty directory, as the property states"},
		Cases: func(t string) int {
			if t == "thorough" {
				return 400
			}
			return 40
		},
		Batch:       func(t string) int { return 2 },
		Procs:       10,
		MinSigs:     12,
		CaseTimeout: 15 * time.Minute,
		Run:         runC12,
	})
}
