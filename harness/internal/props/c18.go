package props

import (
	"fmt"
	"math/rand"
	"runtime"
	"sort"
	"sync"
	"sync/atomic"
	"unsafe"

	"github.com/couchbase/nitro/skiplist"

	"nitroverif/internal/galloc"
	"nitroverif/internal/rt"
)

// C18 — bulk builder and merge iterator.

type slEnv struct {
	cfg   skiplist.Config
	a     *galloc.Alloc
	keep  []unsafe.Pointer // item pointers live in non-Go memory in user-managed mode: keep them reachable
	kmu   sync.Mutex
	freed []unsafe.Pointer
}

func newSLEnv(mem string) *slEnv {
	e := &slEnv{cfg: skiplist.DefaultConfig()}
	if mem != "go" {
		m := galloc.Poison
		if mem == "pageguard" {
			m = galloc.PageGuard
		}
		e.a = galloc.New(m)
		e.cfg.UseMemoryMgmt = true
		e.cfg.Malloc = e.a.Malloc
		e.cfg.Free = e.a.Free
		e.cfg.BarrierDestructor = func(ref unsafe.Pointer) {
			if ref != nil {
				e.a.Free(ref)
			}
		}
	}
	return e
}

func (e *slEnv) intItem(x int) unsafe.Pointer {
	p := skiplist.NewIntKeyItem(x)
	e.kmu.Lock()
	e.keep = append(e.keep, p)
	e.kmu.Unlock()
	return p
}

func slScan(s *skiplist.Skiplist) []int {
	buf := s.MakeBuf()
	it := s.NewIterator(skiplist.CompareInt, buf)
	defer it.Close()
	var out []int
	for it.SeekFirst(); it.Valid(); it.Next() {
		out = append(out, skiplist.IntFromItem(it.Get()))
		if len(out) > 5_000_000 {
			break
		}
	}
	return out
}

func intsEqual(a, b []int) bool {
	if len(a) != len(b) {
		return false
	}
	for i := range a {
		if a[i] != b[i] {
			return false
		}
	}
	return true
}

// c18LevelRace: many tiny builds whose segments receive their first items at the same instant
// (spin gate), which is when the shared list level is raised. After Assemble the tallest node
// is deleted; like in an incrementally built list it must then be unlinked at every level.
func c18LevelRace(c *rt.C) {
	r := c.Rng
	nw := pick(r, 4, 8, 8)
	per := pick(r, 1, 1, 2, 3)
	trials := 3000
	for t := 0; t < trials && !c.Failed(); t++ {
		e := newSLEnv("go")
		b := skiplist.NewBuilderWithConfig(e.cfg)
		segs := make([]*skiplist.Segment, nw)
		for i := range segs {
			segs[i] = b.NewSegment()
		}
		var ready, gate int32
		var wg sync.WaitGroup
		for i := range segs {
			wg.Add(1)
			go func(i int) {
				defer wg.Done()
				atomic.AddInt32(&ready, 1)
				for n := 0; atomic.LoadInt32(&gate) == 0; n++ {
					if n > 2000 {
						runtime.Gosched()
					}
				}
				for j := 0; j < per; j++ {
					segs[i].Add(e.intItem(i*per + j))
				}
			}(i)
		}
		for atomic.LoadInt32(&ready) < int32(nw) {
			runtime.Gosched()
		}
		atomic.StoreInt32(&gate, 1)
		wg.Wait()
		s := b.Assemble(segs...)
		c.Evals(1)
		// tallest node
		var tall *skiplist.Node
		cnt := 0
		for n, _ := s.HeadNode().VerifNext(0); n != nil && n != s.TailNode() && cnt <= nw*per; n, _ = n.VerifNext(0) {
			cnt++
			if tall == nil || n.Level() > tall.Level() {
				tall = n
			}
		}
		if cnt != nw*per {
			c.Violate("assemble-content", fmt.Sprintf("assembled list holds %d nodes on level 0, %d were added (%d segments filled at the same instant)", cnt, nw*per, nw), nil)
			break
		}
		lvl := s.VerifLevel()
		c.Sig("level-race/nseg=%d/per=%d/tallest=%d/level=%d", nw, per, min(tall.Level(), 5), min(lvl, 5))
		v := skiplist.IntFromItem(tall.Item())
		buf := s.MakeBuf()
		ok := s.Delete(tall.Item(), skiplist.CompareInt, buf, &s.Stats)
		s.FreeBuf(buf)
		if !ok {
			c.Violate("assemble-later-delete", fmt.Sprintf("Delete(%d) on the assembled list failed although the item is present", v), nil)
			break
		}
		if at := linkedAt(s, unsafe.Pointer(tall), 1000); at >= 0 {
			c.Violate("assemble-level", fmt.Sprintf("after Delete(%d) returned, its node (height %d) is still linked at level %d: the assembled list's level is %d, so the unlink pass never looked there (an incrementally built list raises its level before linking a taller node); %d segments received their first items at the same instant",
				v, tall.Level(), at, lvl, nw), map[string]interface{}{"segments": nw, "items_per_segment": per, "trial": t})
			break
		}
	}
}

func runC18(c *rt.C) {
	if c.Index%25 == 23 {
		c18LevelRace(c)
		return
	}
	if c.Index%2 == 0 {
		c18Builder(c)
	} else {
		c18Merger(c)
	}
}

func c18Builder(c *rt.C) {
	r := c.Rng
	mem := memModes()[(c.Index/2)%3]
	e := newSLEnv(mem)
	b := skiplist.NewBuilderWithConfig(e.cfg)
	nseg := r.Intn(13)
	sizes := make([]int, nseg)
	shape := ""
	total := 0
	for i := range sizes {
		switch r.Intn(4) {
		case 0:
			sizes[i] = 0
		case 1:
			sizes[i] = 1 + r.Intn(3)
		default:
			sizes[i] = r.Intn(200)
		}
		total += sizes[i]
	}
	if nseg > 0 {
		shape = fmt.Sprintf("first-empty=%v/last-empty=%v", sizes[0] == 0, sizes[nseg-1] == 0)
	}
	segs := make([]*skiplist.Segment, nseg)
	var want []int
	next := 0
	starts := make([]int, nseg)
	for i := range segs {
		segs[i] = b.NewSegment()
		starts[i] = next
		for j := 0; j < sizes[i]; j++ {
			want = append(want, next)
			next += 1 + r.Intn(3)
		}
		next += r.Intn(5)
	}
	// fill concurrently (each segment by its own goroutine) for odd cases
	concurrent := (c.Index/6)%2 == 1
	fill := func(i int) {
		lr := rand.New(rand.NewSource(c.Seed + int64(i)))
		_ = lr
		lo := sort.SearchInts(want, starts[i])
		for j := 0; j < sizes[i]; j++ {
			segs[i].Add(e.intItem(want[lo+j]))
		}
	}
	if concurrent {
		// all fillers are released together: the first Adds of every segment (where the shared
		// list level is raised) then really overlap
		var wg sync.WaitGroup
		gate := make(chan struct{})
		for i := range segs {
			wg.Add(1)
			go func(i int) { defer wg.Done(); <-gate; fill(i) }(i)
		}
		close(gate)
		wg.Wait()
	} else {
		for i := range segs {
			fill(i)
		}
	}
	s := b.Assemble(segs...)
	c.Evals(1)
	c.Sig("build/nseg=%d/%s/conc=%v/mem=%s", min(nseg, 4), shape, concurrent, mem)
	witness := map[string]interface{}{"mem": mem, "segment_sizes": sizes, "concurrent_fill": concurrent}
	got := slScan(s)
	if !intsEqual(got, want) {
		c.Violate("assemble-content", fmt.Sprintf("assembled list scans %d items, concatenation of segments has %d (first difference at %d)", len(got), len(want), firstDiff(got, want)), witness)
		return
	}
	// structure + statistics
	w := Walk(s, func(a, b unsafe.Pointer) int { return skiplist.CompareInt(a, b) }, func(unsafe.Pointer) int { return 0 }, len(want)+5)
	if len(w.Problems) > 0 {
		c.Violate("assemble-structure", fmt.Sprintf("structure walk after Assemble: %v", w.Problems), witness)
		return
	}
	if ps := slStatsProblems(s, w); len(ps) > 0 {
		c.Violate("assemble-stats", fmt.Sprintf("statistics after Assemble: %v", ps), witness)
		return
	}
	// lookups
	buf := s.MakeBuf()
	present := map[int]bool{}
	for _, x := range want {
		present[x] = true
	}
	for x := -1; x <= next+1; x++ {
		_, _, found := s.Lookup(e.intItem(x), skiplist.CompareInt, buf, &s.Stats)
		if found != present[x] {
			c.Violate("assemble-lookup", fmt.Sprintf("Lookup(%d) found=%v on the assembled list, expected %v", x, found, present[x]), witness)
			return
		}
	}
	// later operations against an ordered-set model
	set := map[int]bool{}
	for _, x := range want {
		set[x] = true
	}
	for op := 0; op < 300; op++ {
		x := r.Intn(next + 3)
		if r.Intn(2) == 0 {
			ok := s.Insert(e.intItem(x), skiplist.CompareInt, buf, &s.Stats)
			if ok == set[x] {
				c.Violate("post-insert", fmt.Sprintf("Insert(%d) on the assembled list returned %v, model present=%v", x, ok, set[x]), witness)
				return
			}
			set[x] = true
		} else {
			var ok bool
			if e.a != nil {
				// user-managed: delete through lookup + DeleteNode + flush, as nitro does
				tok := s.GetAccesBarrier().Acquire()
				_, n, found := s.Lookup(e.intItem(x), skiplist.CompareInt, buf, &s.Stats)
				if found {
					ok = s.DeleteNode2(n, skiplist.CompareInt, buf, &s.Stats)
				}
				s.GetAccesBarrier().Release(tok)
				if ok {
					s.GetAccesBarrier().FlushSession(unsafe.Pointer(n))
				}
			} else {
				ok = s.Delete(e.intItem(x), skiplist.CompareInt, buf, &s.Stats)
			}
			if ok != set[x] {
				c.Violate("post-delete", fmt.Sprintf("Delete(%d) on the assembled list returned %v, model present=%v", x, ok, set[x]), witness)
				return
			}
			delete(set, x)
		}
		c.Evals(1)
	}
	var final []int
	for x := range set {
		final = append(final, x)
	}
	sort.Ints(final)
	if got := slScan(s); !intsEqual(got, final) {
		c.Violate("post-content", fmt.Sprintf("after 300 further operations the list scans %d items, model has %d", len(got), len(final)), witness)
		return
	}
	w = Walk(s, func(a, b unsafe.Pointer) int { return skiplist.CompareInt(a, b) }, func(unsafe.Pointer) int { return 0 }, len(final)+len(want)+5)
	if len(w.Problems) > 0 {
		c.Violate("post-structure", fmt.Sprintf("structure walk after further operations: %v", w.Problems), witness)
		return
	}
	if ps := slStatsProblems(s, w); len(ps) > 0 {
		c.Violate("post-stats", fmt.Sprintf("statistics after further operations: %v", ps), witness)
		return
	}
	if e.a != nil {
		if vs := e.a.Violations(); len(vs) > 0 {
			c.Violate("memory-"+vs[0].Kind, fmt.Sprintf("allocator: %+v", vs[0]), witness)
		}
	}
	c.Sample(map[string]interface{}{"kind": "builder", "mem": mem, "segment_sizes": sizes, "items": len(want), "concurrent_fill": concurrent, "max_level": w.MaxLevelSeen})
}

func firstDiff(a, b []int) int {
	for i := 0; i < len(a) && i < len(b); i++ {
		if a[i] != b[i] {
			return i
		}
	}
	return min(len(a), len(b))
}

// slStatsProblems reconciles a bare skiplist's statistics with a walk.
func slStatsProblems(s *skiplist.Skiplist, w *WalkReport) []string {
	var ps []string
	st := s.GetStats()
	if st.NodeCount != w.Level0Linked {
		ps = append(ps, fmt.Sprintf("NodeCount=%d, walk finds %d nodes on level 0", st.NodeCount, w.Level0Linked))
	}
	if st.SoftDeletes != int64(w.Level0Marked) {
		ps = append(ps, fmt.Sprintf("SoftDeletes=%d, walk finds %d marked nodes on level 0", st.SoftDeletes, w.Level0Marked))
	}
	for l := range st.NodeDistribution {
		if st.NodeDistribution[l] != w.PerLevel[l] {
			ps = append(ps, fmt.Sprintf("NodeDistribution[%d]=%d, walk counts %d", l, st.NodeDistribution[l], w.PerLevel[l]))
			break
		}
	}
	if s.MemoryInUse() != w.Bytes {
		ps = append(ps, fmt.Sprintf("MemoryInUse=%d, walk measures %d", s.MemoryInUse(), w.Bytes))
	}
	return ps
}

func c18Merger(c *rt.C) {
	r := c.Rng
	nl := r.Intn(9)
	e := newSLEnv("go")
	var lists []*skiplist.Skiplist
	var union []int
	var sizes []int
	style := r.Intn(4) // 0 disjoint ranges, 1 overlapping, 2 identical (duplicates), 3 random with empties
	for i := 0; i < nl; i++ {
		s := skiplist.New()
		buf := s.MakeBuf()
		n := r.Intn(40)
		if style == 3 && r.Intn(2) == 0 {
			n = 0
		}
		cnt := 0
		for j := 0; j < n; j++ {
			var x int
			switch style {
			case 0:
				x = i*1000 + r.Intn(100)
			case 1:
				x = r.Intn(60)
			case 2:
				x = j * 2
			default:
				x = r.Intn(200)
			}
			if s.Insert(e.intItem(x), skiplist.CompareInt, buf, &s.Stats) {
				union = append(union, x)
				cnt++
			}
		}
		sizes = append(sizes, cnt)
		lists = append(lists, s)
	}
	sort.Ints(union)
	var iters []*skiplist.Iterator
	for _, s := range lists {
		iters = append(iters, s.NewIterator(skiplist.CompareInt, s.MakeBuf()))
	}
	mit := skiplist.NewMergeIterator(iters)
	pos := -1
	var trace []string
	witness := func() interface{} {
		t := trace
		if len(t) > 40 {
			t = t[len(t)-40:]
		}
		return map[string]interface{}{"list_sizes": sizes, "style": style, "ops": t, "union_len": len(union)}
	}
	repositions := 0
	for op := 0; op < 200 && !c.Failed(); op++ {
		x := r.Intn(100)
		phase := "during"
		if pos < 0 {
			phase = "before"
		} else if pos >= len(union) {
			phase = "after"
		}
		switch {
		case pos < 0 || x < 8:
			mit.SeekFirst()
			pos = 0
			repositions++
			trace = append(trace, "SeekFirst")
			c.Sig("merge/seekfirst/%s/rep=%d/style=%d/nl=%d", phase, min(repositions, 3), style, min(nl, 3))
		case x < 25:
			t := r.Intn(1100) - 5
			if style != 0 {
				t = r.Intn(210) - 5
			}
			mit.Seek(e.intItem(t))
			pos = sort.SearchInts(union, t)
			repositions++
			trace = append(trace, fmt.Sprintf("Seek(%d)", t))
			c.Sig("merge/seek/%s/rep=%d/style=%d/nl=%d", phase, min(repositions, 3), style, min(nl, 3))
		default:
			if pos >= len(union) {
				pos = -1
				continue
			}
			mit.Next()
			pos++
			trace = append(trace, "Next")
			c.Sig("merge/next/style=%d", style)
		}
		c.Evals(1)
		v := mit.Valid()
		if v != (pos < len(union)) {
			c.Violate("merge-valid", fmt.Sprintf("Valid()=%v but the reference position is %d of %d", v, pos, len(union)), witness())
			break
		}
		if v {
			if g := skiplist.IntFromItem(mit.Get()); g != union[pos] {
				c.Violate("merge-item", fmt.Sprintf("Get()=%d but the sorted multiset union has %d at position %d", g, union[pos], pos), witness())
				break
			}
		}
	}
	c.Sample(map[string]interface{}{"kind": "merge", "list_sizes": sizes, "style": style, "first_ops": firstN(trace, 25)})
}

func init() {
	rt.Register(&rt.Prop{
		ID: "C18", Level: "exploration",
		Technique: "runtime monitoring: assembled list compared with the concatenation of its segments (scan, lookups, structure walk, statistics) and with an ordered-set model under later operations; merge iterator compared with the sorted multiset union after every call",
		Rule: "even cases: 0-12 segments of 0-199 ascending items (empty segments leading/trailing/middle), filled sequentially or one goroutine per segment, Go-managed and both guard allocators; checks scan, Lookup of every value and gap, full-level structure walk, statistics, then 300 Insert/Delete against a set model and a final scan/walk. " +
			"every 25th case: 3000 tiny builds whose 4-8 segments receive their first items at the same instant (spin gate; this is when the shared list level is raised), then the tallest node is deleted and must be unlinked at every level. odd cases: 0-8 lists (disjoint / overlapping / identical / with empties) merged; 200 random SeekFirst/Seek(x)/Next calls with repositioning before, during and after scans. evaluations = builds + operations checked; distinct = configuration/phase tuples",
		Assumptions: []string{"items added to a segment are ascending and segments are passed to Assemble in ascending order (API contract)", "MergeIterator.Next is not called once it is invalid"},
		Cases: func(t string) int {
			if t == "thorough" {
				return 12000
			}
			return 600
		},
		Batch:   func(t string) int { return 100 },
		Procs:   8,
		MinSigs: 30,
		Run:     runC18,
	})
}
