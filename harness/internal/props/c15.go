package props

import (
	"fmt"
	"math/rand"
	"runtime"
	"runtime/debug"
	"sort"
	"sync"
	"sync/atomic"
	"unsafe"

	"github.com/couchbase/nitro/skiplist"

	"nitroverif/internal/rt"
)

// C15 — skiplist iterators under concurrent modification.
//
// Stable items (never touched) are interleaved with churn keys; every churn key
// has exactly one owning mutator, so its log is I1 D1 I2 D2 ... with call and
// return stamps. All judgements are conservative: only *completed* operations
// exclude presence, so concurrency can never create a false alarm.

type churnOp struct {
	ins       bool
	call, ret int64
}

type scanObs struct {
	val int
	t   int64
}

type scanRec struct {
	start, end int64
	seekFrom   int  // -1 = SeekFirst
	reused     bool // the iterator object had run an earlier scan to its end
	obs        []scanObs
	interval   int
	paused     bool
	conflicts  uint64
}

func c15Run(c *rt.C) {
	if c.Index < 4 {
		c15DirectedRefresh(c, []string{"pageguard", "poison"}[c.Index%2])
		return
	}
	r := c.Rng
	mem := memModes()[c.Index%3]
	e := newSLEnv(mem)
	s := skiplist.NewWithConfig(e.cfg)
	nStable := pick(r, 5, 20, 60)
	gap := pick(r, 2, 3, 6) // churn keys between stable items: stable = multiples of gap
	maxV := nStable * gap
	buf := s.MakeBuf()
	stable := map[int]bool{}
	for i := 0; i < nStable; i++ {
		v := i * gap
		stable[v] = true
		s.Insert(e.intItem(v), skiplist.CompareInt, buf, &s.Stats)
	}
	var churnKeys []int
	for v := 0; v < maxV; v++ {
		if !stable[v] {
			churnKeys = append(churnKeys, v)
		}
	}
	nMut := pick(r, 1, 2, 4, 8)
	nScan := pick(r, 1, 2, 4, 8)
	scansPer := 6
	perturb := pick(r, 0, 1, 4, 8)
	if perturb > 0 {
		pt := perturber(r.Int63(), perturb)
		skiplist.VerifSetHook(func(id int, arg unsafe.Pointer) {
			if id >= skiplist.VpInsBeforePublish {
				pt(id)
			}
		})
	}
	defer skiplist.VerifSetHook(nil)
	logs := map[int][]churnOp{}
	var lmu sync.Mutex
	var stop int32
	var mwg sync.WaitGroup
	var mutProblem atomic.Value
	for m := 0; m < nMut; m++ {
		mwg.Add(1)
		go func(m int) {
			defer mwg.Done()
			lr := rand.New(rand.NewSource(c.Seed + int64(m)*101))
			b := s.MakeBuf()
			var mine []int
			for i, k := range churnKeys {
				if i%nMut == m {
					mine = append(mine, k)
				}
			}
			if len(mine) == 0 {
				return
			}
			present := map[int]bool{}
			local := map[int][]churnOp{}
			maxOps := 30000
			if mem == "pageguard" {
				maxOps = 4000
			}
			for n := 0; atomic.LoadInt32(&stop) == 0; n++ {
				if n >= maxOps {
					// bounded churn: keep yielding until the scanners are done
					runtime.Gosched()
					continue
				}
				k := mine[lr.Intn(len(mine))]
				itm := e.intItem(k)
				if !present[k] {
					t0 := Tick()
					ok := s.Insert(itm, skiplist.CompareInt, b, &s.Stats)
					t1 := Tick()
					if !ok {
						mutProblem.Store(fmt.Sprintf("Insert(%d) by its only owner failed", k))
						return
					}
					present[k] = true
					local[k] = append(local[k], churnOp{true, t0, t1})
				} else {
					t0 := Tick()
					var ok bool
					if e.a != nil {
						ok, _ = slDeleteMM(s, itm, b)
					} else {
						ok = s.Delete(itm, skiplist.CompareInt, b, &s.Stats)
					}
					t1 := Tick()
					if !ok {
						mutProblem.Store(fmt.Sprintf("Delete(%d) by its only owner failed", k))
						return
					}
					present[k] = false
					local[k] = append(local[k], churnOp{false, t0, t1})
				}
				if lr.Intn(4) == 0 {
					runtime.Gosched()
				}
			}
			lmu.Lock()
			for k, v := range local {
				logs[k] = v
			}
			lmu.Unlock()
		}(m)
	}
	scans := make([][]scanRec, nScan)
	var swg sync.WaitGroup
	for g := 0; g < nScan; g++ {
		swg.Add(1)
		go func(g int) {
			defer swg.Done()
			lr := rand.New(rand.NewSource(c.Seed + 7777 + int64(g)))
			var it *skiplist.Iterator
			lastInterval := 0
			for k := 0; k < scansPer; k++ {
				// half of the scans that ran to the end hand their iterator object to the next scan
				// ("all scan start points" includes re-positioning an exhausted iterator)
				reused := it != nil
				if it == nil {
					it = s.NewIterator(skiplist.CompareInt, s.MakeBuf())
					lastInterval = 0
				}
				rec := scanRec{seekFrom: -1, interval: pick(lr, 0, 1, 2, 3, 7, 50), reused: reused}
				if rec.interval > 0 {
					it.SetRefreshInterval(rec.interval)
					lastInterval = rec.interval
				} else {
					rec.interval = lastInterval
				}
				rec.paused = lr.Intn(4) == 0
				c0 := s.GetStats().ReadConflicts
				rec.start = Tick()
				if lr.Intn(2) == 0 {
					rec.seekFrom = lr.Intn(maxV)
					it.Seek(e.intItem(rec.seekFrom))
				} else {
					it.SeekFirst()
				}
				for n := 0; it.Valid(); n++ {
					v := skiplist.IntFromItem(it.Get())
					rec.obs = append(rec.obs, scanObs{v, Tick()})
					if len(rec.obs) > 50*maxV+1000 {
						break
					}
					if rec.paused && n%5 == 4 {
						last := v
						it.Pause()
						runtime.Gosched()
						it.Resume()
						if e.a != nil {
							// Pause dropped the accessor token: with user-managed memory the current node
							// may have been reclaimed meanwhile, so the scan re-seeks its last value
							it.Seek(e.intItem(last))
							if !it.Valid() {
								break
							}
							if skiplist.IntFromItem(it.Get()) == last {
								it.Next()
							}
							continue
						}
					}
					it.Next()
				}
				rec.end = Tick()
				rec.conflicts = s.GetStats().ReadConflicts - c0
				if !it.Valid() && k+1 < scansPer && lr.Intn(2) == 0 {
					// keep the exhausted iterator for the next scan
				} else {
					if rec.paused && lr.Intn(2) == 0 {
						it.Pause() // a paused iterator that is closed without being resumed holds nothing any more
					}
					it.Close()
					it = nil
				}
				scans[g] = append(scans[g], rec)
			}
		}(g)
	}
	swg.Wait()
	atomic.StoreInt32(&stop, 1)
	mwg.Wait()
	if p := mutProblem.Load(); p != nil {
		c.Inconclusive("set semantics broke for a single-owner key (C13's oracle): " + p.(string))
		return
	}
	// judge
	possiblyPresent := func(k int, s0, e0 int64) bool {
		ops := logs[k]
		for i := 0; i < len(ops); i++ {
			if !ops[i].ins {
				continue
			}
			lo := ops[i].call
			hi := int64(1) << 62
			if i+1 < len(ops) {
				hi = ops[i+1].ret
			}
			if lo <= e0 && hi >= s0 {
				return true
			}
		}
		return false
	}
	certainlyPresent := func(k int, s0, e0 int64) bool {
		ops := logs[k]
		for i := 0; i < len(ops); i++ {
			if !ops[i].ins {
				continue
			}
			lo := ops[i].ret
			hi := int64(1) << 62
			if i+1 < len(ops) {
				hi = ops[i+1].call
			}
			if lo <= s0 && hi >= e0 {
				return true
			}
		}
		return false
	}
	reinserted := func(k int, t1, t2 int64) bool {
		ops := logs[k]
		for i := 0; i+1 < len(ops); i++ {
			if !ops[i].ins && ops[i+1].ins && ops[i].call <= t2 && ops[i+1].ret >= t1 {
				return true
			}
		}
		return false
	}
	nScans, conflictScans := 0, 0
	for g := range scans {
		for _, sc := range scans[g] {
			nScans++
			if sc.conflicts > 0 {
				conflictScans++
			}
			c.Evals(1)
			c.Sig("scan/seek=%v/interval=%d/paused=%v/conflicts=%v/reused-iterator=%v/mem=%s", sc.seekFrom >= 0, sc.interval, sc.paused, sc.conflicts > 0, sc.reused, mem)
			witness := func() interface{} {
				var o []string
				for i, x := range sc.obs {
					if i > 80 {
						o = append(o, "…")
						break
					}
					o = append(o, fmt.Sprintf("%d@%d", x.val, x.t))
				}
				return map[string]interface{}{"mem": mem, "scan_interval": []int64{sc.start, sc.end}, "seek_from": sc.seekFrom, "refresh_interval": sc.interval, "paused": sc.paused, "observed": o, "stable_gap": gap}
			}
			lo := 0
			if sc.seekFrom >= 0 {
				lo = sc.seekFrom
			}
			seen := map[int]int{}
			for i, ob := range sc.obs {
				seen[ob.val]++
				if ob.val < lo {
					c.Violate("seek-before-target", fmt.Sprintf("Seek(%d) scan returned %d", sc.seekFrom, ob.val), witness())
				}
				if i > 0 {
					p := sc.obs[i-1]
					if ob.val < p.val {
						c.Violate("went-backwards", fmt.Sprintf("scan returned %d after %d", ob.val, p.val), witness())
					} else if ob.val == p.val {
						// the first of the two was read at some moment after the observation before it
						// (its own stamp is taken after the read and may be late)
						tPrev := sc.start
						if i > 1 {
							tPrev = sc.obs[i-2].t
						}
						if stable[ob.val] || !reinserted(ob.val, tPrev, ob.t) {
							c.Violate("duplicate", fmt.Sprintf("scan returned %d twice in a row (observations at %d and %d) and the key was not deleted and re-inserted meanwhile (log: %v)", ob.val, p.t, ob.t, logs[ob.val]), witness())
						}
					}
				}
				if !stable[ob.val] && !possiblyPresent(ob.val, sc.start, sc.end) {
					c.Violate("phantom", fmt.Sprintf("scan [%d,%d] returned churn key %d which, by its owner's log %v, was not present at any moment of the scan", sc.start, sc.end, ob.val, logs[ob.val]), witness())
				}
			}
			// completeness: stable items and churn keys certainly present throughout
			truncated := len(sc.obs) > 50*maxV
			for v := lo; v < maxV && !truncated; v++ {
				must := stable[v] || certainlyPresent(v, sc.start, sc.end)
				if must && seen[v] == 0 {
					c.Violate("missed-item", fmt.Sprintf("scan [%d,%d] (from %d) did not return %d, which was present for the whole scan (stable=%v)", sc.start, sc.end, lo, v, stable[v]), witness())
				}
				if stable[v] && seen[v] > 1 {
					c.Violate("duplicate", fmt.Sprintf("stable item %d returned %d times", v, seen[v]), witness())
				}
			}
			if sc.seekFrom >= 0 && len(sc.obs) > 0 {
				first := sc.obs[0].val
				for v := sc.seekFrom; v < first; v++ {
					if stable[v] {
						c.Violate("seek-skipped-stable", fmt.Sprintf("Seek(%d) landed on %d, skipping stable item %d", sc.seekFrom, first, v), witness())
					}
				}
			}
		}
	}
	nops := 0
	for _, l := range logs {
		nops += len(l)
	}
	c.Count("scans", int64(nScans))
	c.Count("scans_that_took_the_conflict_path", int64(conflictScans))
	c.Count("churn_operations", int64(nops))
	if e.a != nil {
		for _, v := range e.a.Violations() {
			c.Inconclusive(fmt.Sprintf("allocator oracle (C04) fired: %+v", v))
		}
	}
	ks := make([]int, 0)
	for k := range logs {
		ks = append(ks, k)
	}
	sort.Ints(ks)
	c.Sample(map[string]interface{}{"mem": mem, "stable_items": nStable, "gap": gap, "mutators": nMut, "scanners": nScan, "churn_ops": nops, "scans": nScans, "conflict_path_scans": conflictScans})
}

func init() {
	rt.Register(&rt.Prop{
		ID: "C15", Level: "exploration",
		Technique: "runtime monitoring: scans with logical start/end and per-observation stamps judged against stable items and per-key single-owner churn logs (conservative interval reasoning)",
		Rule: "cases 0-3: directed, hook-free — an iterator with refresh interval 1 (user-managed memory) is parked inside its own comparator while Refresh re-seeks the current item; that item is deleted and flushed meanwhile; the iterator must not touch released memory, go backwards or lose a stable item. Other cases: 5-60 stable items with 1-5 churn keys between neighbours (so the node under the iterator, its predecessor and successor are constantly inserted and deleted), 1-8 mutators (one owner per churn key) and 1-8 scanners running 6 scans each from SeekFirst or Seek(x), refresh interval ∈ {none,1,2,3,7,50}, a quarter with Pause/Resume (half of those end with Pause then Close without Resume); half of the scans that reach the end hand their exhausted iterator object to the next scan; Go-managed, poison and pageguard memory; perturbation at the skiplist hook points. Judged: never backwards; equal neighbours only with a delete+re-insert overlapping the gap; every returned churn key possibly present during the scan; every stable or certainly-present item ≥ the start returned (stable ones exactly once); Seek lands ≥ x with no stable item skipped. " +
			"evaluations = scans judged; distinct = (seek?, refresh interval, paused, took the read-conflict path?, memory) tuples",
		Assumptions: []string{"with user-managed memory the harness re-seeks its last value after Pause/Resume (Pause drops the accessor token, so the current node may have been reclaimed); with Go-managed memory it simply continues with Next", "each churn key has a single owner, so its log is a sequence of completed operations"},
		Cases: func(t string) int {
			if t == "thorough" {
				return 1500
			}
			return 60
		},
		Batch:   func(t string) int { return 5 },
		Procs:   12,
		MinSigs: 12,
		Run:     c15Run,
	})
}

// c15DirectedRefresh (user-managed memory, hook-free: the iterator's comparator is user-supplied):
// an iterator with refresh interval 1 steps onto an item and refreshes; while its Refresh re-seeks
// that item (parked inside the comparator at the final comparison), another goroutine deletes the
// item and flushes its node; the iterator resumes, finishes the refresh and continues. It must never
// touch released memory, must not go backwards, and must deliver the remaining stable items.
func c15DirectedRefresh(c *rt.C, mem string) {
	e := newSLEnv(mem)
	s := skiplist.NewWithConfig(e.cfg)
	buf := s.MakeBuf()
	vals := []int{10, 20, 30, 40, 50}
	for _, v := range vals {
		s.Insert3(e.intItem(v), skiplist.CompareInt, nil, buf, 0, false, &s.Stats)
	}
	var armed int32
	parked := make(chan struct{})
	resume := make(chan struct{})
	var once sync.Once
	cmp := func(a, b unsafe.Pointer) int {
		if atomic.LoadInt32(&armed) == 1 && a == b { // the re-seek of Refresh comparing the current item with itself
			once.Do(func() {
				close(parked)
				<-resume
			})
		}
		return skiplist.CompareInt(a, b)
	}
	type out struct {
		seq   []int
		fault interface{}
	}
	done := make(chan out, 1)
	go func() {
		debug.SetPanicOnFault(true)
		var o out
		defer func() {
			o.fault = recover()
			done <- o
		}()
		it := s.NewIterator(cmp, s.MakeBuf())
		it.SetRefreshInterval(1)
		it.SeekFirst()
		o.seq = append(o.seq, skiplist.IntFromItem(it.Get()))
		atomic.StoreInt32(&armed, 1)
		for it.Next(); it.Valid(); it.Next() {
			o.seq = append(o.seq, skiplist.IntFromItem(it.Get()))
			if len(o.seq) > 20 {
				break
			}
		}
		it.Close()
	}()
	reached := false
	select {
	case <-parked:
		reached = true
		ok, _ := slDeleteMM(s, e.intItem(20), buf) // delete + flush the node the iterator is re-seeking
		atomic.StoreInt32(&armed, 0)
		if !ok {
			c.Inconclusive("delete of the current item failed")
		}
		close(resume)
	case o := <-done:
		done <- o
	}
	o := <-done
	c.Evals(1)
	c.Sig("directed-refresh/mem=%s/reached=%v", mem, reached)
	witness := map[string]interface{}{"mem": mem, "sequence": o.seq, "window_reached": reached}
	if !reached {
		c.Inconclusive("the comparator window inside Refresh was never reached")
		return
	}
	if o.fault != nil {
		c.Violate("refresh-touched-released-memory", fmt.Sprintf("iterator with refresh interval 1: its current item was deleted and flushed while Refresh was re-seeking it; afterwards the iterator touched released memory: %v (items so far %v)", o.fault, o.seq), witness)
		return
	}
	for _, v := range e.a.Violations() {
		c.Violate("alloc-"+v.Kind, fmt.Sprintf("%+v", v), witness)
	}
	// never backwards; only values that were in the list; the stable items 30,40,50 each exactly once
	seen := map[int]int{}
	for i, v := range o.seq {
		seen[v]++
		if i > 0 && v <= o.seq[i-1] {
			c.Violate("went-backwards", fmt.Sprintf("sequence %v", o.seq), witness)
		}
		if v%10 != 0 || v < 10 || v > 50 {
			c.Violate("phantom", fmt.Sprintf("iterator returned %d, which was never in the list (sequence %v)", v, o.seq), witness)
		}
	}
	for _, v := range []int{10, 30, 40, 50} {
		if seen[v] != 1 {
			c.Violate("missed-item", fmt.Sprintf("stable item %d returned %d times (sequence %v)", v, seen[v], o.seq), witness)
		}
	}
	c.Sample(map[string]interface{}{"directed": "refresh re-seek parked in the comparator while its item is deleted and flushed", "mem": mem, "sequence": o.seq})
}
