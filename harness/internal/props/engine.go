package props

import (
	"bytes"
	"fmt"
	"math/rand"
	"os"
	"runtime"
	"runtime/debug"
	"sort"
	"sync"
	"sync/atomic"
	"unsafe"

	"github.com/couchbase/nitro"
	"github.com/couchbase/nitro/skiplist"

	"nitroverif/internal/rt"
)

// The concurrent history engine shared by C01, C04, C05, C06, C07, C14, C17.
//
// Phases of concurrent writers (each key has exactly one owning writer per
// phase; ownership rotates, so versions are created by one writer and deleted
// by another) alternate with NewSnapshot; a pool of scanner goroutines keeps
// scanning random open snapshots while later phases run; snapshots are closed
// in configurable orders from several goroutines. All oracles are tagged with
// the property they belong to.

type EngOpt struct {
	Mem          string
	KV           bool
	Rev          bool // descending custom comparator (ignored with KV)
	Delta        bool
	NWriters     int
	NKeys        int
	Phases       int
	OpsPerWriter int
	Scanners     int
	Refresh      []int
	Visitors     bool
	CloseOrder   string // random | newest-first | oldest-last | keep-all
	MaxOpen      int
	GCStorm      bool
	Perturb      int // 0 = hooks off
	Checkpoints  bool
	Dwell        bool
	DeleteBias   int
	TrailingOps  bool // after the last snapshot, one more phase of writes and then Close() without any further GC/checkpoint
	SharedDelete bool // several writers may delete the same key (C06 contention): keys are then owned for Put only
}

type EngProblem struct {
	Prop   string
	Kind   string
	Detail string
}

type verRec struct {
	born, dead uint32
}

type Engine struct {
	o    EngOpt
	c    *rt.C
	db   *DB
	ws   []*nitro.Writer
	r    *rand.Rand
	seed int64

	model    *Model
	versions map[string][]verRec // per key physical versions predicted present
	valctr   int64

	gate    sync.RWMutex // scanners hold it shared during one scan; checkpoints take it exclusively
	mu      sync.Mutex   // protects open, problems
	open    []*HSnap
	allSn   []uint32
	probs   []EngProblem
	stop    int32
	scanWG  sync.WaitGroup
	scans   int64
	scanned int64
	dwell   int64
	visits  int64

	Checkpoints  int
	Reconciled   int
	CloseOrders  map[string]bool
	deadCASRaces int64
	AgeSigs      map[string]bool
	sigmu        sync.Mutex
	WalkMaxLevel int
	NodesWalked  int64
	StoreLoads   int
	everyPhase   bool
}

func (e *Engine) problem(prop, kind, f string, a ...interface{}) {
	e.mu.Lock()
	if len(e.probs) < 16 {
		e.probs = append(e.probs, EngProblem{prop, kind, fmt.Sprintf(f, a...)})
	}
	e.mu.Unlock()
}

func (e *Engine) sig(f string, a ...interface{}) {
	s := fmt.Sprintf(f, a...)
	e.sigmu.Lock()
	e.AgeSigs[s] = true
	e.sigmu.Unlock()
}

func (e *Engine) failed() bool {
	e.mu.Lock()
	defer e.mu.Unlock()
	return len(e.probs) > 0
}

func NewEngine(c *rt.C, o EngOpt) *Engine {
	e := &Engine{o: o, c: c, r: c.Rng, model: NewModel(), versions: map[string][]verRec{}, CloseOrders: map[string]bool{}, AgeSigs: map[string]bool{}}
	e.seed = c.Rng.Int63()
	e.db = OpenDB(DBOpt{Mem: o.Mem, KV: o.KV, Rev: o.Rev, Delta: o.Delta})
	e.model = e.db.NewModel()
	if o.Perturb > 0 {
		y := yielder(e.seed, o.Perturb)
		pt := perturber(e.seed, o.Perturb)
		hook := func(id int, arg unsafe.Pointer) { pt(id) }
		skiplist.VerifSetHook(hook)
		nitro.VerifSetHook(hook)
		if e.db.A != nil {
			e.db.A.SetYield(y)
		}
	}
	for i := 0; i < o.NWriters; i++ {
		e.ws = append(e.ws, e.db.N.NewWriter())
	}
	if e.db.A != nil && o.NKeys <= 64 {
		// monitor: no node is released while it is still linked at any level
		st := e.db.N.VerifStore()
		e.db.A.SetOnFree(func(p unsafe.Pointer, size int) {
			if lvl := linkedAt(st, p, 100000); lvl >= 0 {
				fmt.Fprintf(os.Stderr, "MONITOR freed-while-linked block=%p size=%d level=%d\n%s\n", p, size, lvl, debug.Stack())
				e.problem("C04", "freed-while-linked", "a node (block %p, %d bytes) was released while it is still linked on level %d of the structure", p, size, lvl)
			}
		})
	}
	return e
}

func (e *Engine) unhook() {
	if e.o.Perturb > 0 {
		skiplist.VerifSetHook(nil)
		nitro.VerifSetHook(nil)
	}
}

// writer-local result of a phase
type wres struct {
	puts, dels map[string][]byte // final state changes: key -> item (puts), key -> nil (dels)
	ops        int
}

func (e *Engine) runPhase(phase int) {
	o := e.o
	nw := len(e.ws)
	cur := e.db.N.GetCurrSn()
	// ownership: key k belongs to writer (k+phase)%nw for this phase
	owned := make([][]int, nw)
	for k := 0; k < o.NKeys; k++ {
		w := (k + phase) % nw
		owned[w] = append(owned[w], k)
	}
	type local struct {
		state map[string][]byte // current items of owned keys
		born  map[string]uint32
		vers  map[string][]verRec
	}
	locals := make([]*local, nw)
	for w := 0; w < nw; w++ {
		l := &local{state: map[string][]byte{}, born: map[string]uint32{}, vers: map[string][]verRec{}}
		for _, k := range owned[w] {
			kb := string(KeyBytes(k))
			if it := e.model.Get(kb); it != nil {
				l.state[kb] = it
			}
			l.vers[kb] = append([]verRec(nil), e.versions[kb]...)
		}
		locals[w] = l
	}
	var wg sync.WaitGroup
	for w := 0; w < nw; w++ {
		if len(owned[w]) == 0 {
			continue
		}
		wg.Add(1)
		go func(w int) {
			defer wg.Done()
			lr := rand.New(rand.NewSource(e.seed + int64(phase)*1000 + int64(w)))
			wr := e.ws[w]
			l := locals[w]
			for i := 0; i < o.OpsPerWriter; i++ {
				k := owned[w][lr.Intn(len(owned[w]))]
				kb := string(KeyBytes(k))
				_, live := l.state[kb]
				x := lr.Intn(100)
				switch {
				case x < o.DeleteBias:
					ok := wr.Delete(e.db.Item(k, "probe"))
					if ok != live {
						e.problem("C03", "delete-result", "phase %d writer %d: Delete(%q)=%v, reference live=%v", phase, w, kb, ok, live)
						return
					}
					if ok {
						delete(l.state, kb)
						vs := l.vers[kb]
						last := &vs[len(vs)-1]
						if last.born == cur {
							l.vers[kb] = vs[:len(vs)-1] // same-epoch delete is physical
						} else {
							last.dead = cur
						}
					}
				case x < 90:
					v := atomic.AddInt64(&e.valctr, 1)
					item := e.db.Item(k, fmt.Sprintf("v%d", v))
					n := wr.Put2(item)
					if (n != nil) == live {
						e.problem("C03", "put-result", "phase %d writer %d: Put2(%q) success=%v, reference live=%v", phase, w, kb, n != nil, live)
						return
					}
					if n != nil {
						l.state[kb] = item
						l.vers[kb] = append(l.vers[kb], verRec{born: cur})
					}
				default:
					n := wr.GetNode(e.db.Item(k, "probe"))
					if (n != nil) != live {
						e.problem("C03", "lookup-result", "phase %d writer %d: GetNode(%q) found=%v, reference live=%v", phase, w, kb, n != nil, live)
						return
					}
				}
			}
		}(w)
	}
	wg.Wait()
	// merge
	for w := 0; w < nw; w++ {
		for _, k := range owned[w] {
			kb := string(KeyBytes(k))
			if it, ok := locals[w].state[kb]; ok {
				e.model.live[kb] = it
			} else {
				delete(e.model.live, kb)
			}
			e.versions[kb] = locals[w].vers[kb]
		}
	}
}

func (e *Engine) newSnapshot() *HSnap {
	s, err := e.db.N.NewSnapshot()
	if err != nil {
		e.problem("C01", "newsnapshot-error", "%v", err)
		return nil
	}
	hs := &HSnap{S: s, Want: e.model.Snapshot(), Sn: s.VerifSn()}
	if s.Count() != int64(len(hs.Want)) {
		e.problem("C01", "snapshot-count", "snapshot sn=%d Count()=%d, reference has %d items", hs.Sn, s.Count(), len(hs.Want))
	}
	if e.db.N.ItemsCount() != int64(len(hs.Want)) {
		e.problem("C06", "items-count", "ItemsCount()=%d after NewSnapshot, reference has %d live items", e.db.N.ItemsCount(), len(hs.Want))
	}
	e.mu.Lock()
	e.open = append(e.open, hs)
	e.allSn = append(e.allSn, hs.Sn)
	e.mu.Unlock()
	return hs
}

// pickOpen takes an extra reference on a random open snapshot.
func (e *Engine) pickOpen(r *rand.Rand) *HSnap {
	e.mu.Lock()
	defer e.mu.Unlock()
	if len(e.open) == 0 {
		return nil
	}
	hs := e.open[r.Intn(len(e.open))]
	if !hs.S.Open() {
		e.probs = append(e.probs, EngProblem{"C08", "open-refused", fmt.Sprintf("Open() returned false on snapshot sn=%d that the harness still holds a reference to", hs.Sn)})
		return nil
	}
	return hs
}

func (e *Engine) scanner(id int) {
	defer e.scanWG.Done()
	r := rand.New(rand.NewSource(e.seed ^ int64(id+1)*7919))
	for atomic.LoadInt32(&e.stop) == 0 {
		e.gate.RLock()
		hs := e.pickOpen(r)
		if hs == nil {
			e.gate.RUnlock()
			runtime.Gosched()
			continue
		}
		newest := e.db.N.GetCurrSn() - 1
		age := int(newest - hs.Sn)
		if e.o.Visitors && r.Intn(4) == 0 {
			shards, conc := pick(r, 1, 2, 4, 16, len(hs.Want)+3), pick(r, 1, 2, 4)
			kind, detail, _ := visitAndCheck(e.db, hs, shards, conc, nil)
			atomic.AddInt64(&e.visits, 1)
			if kind == "inconclusive" {
				kind = ""
			}
			if kind != "" {
				e.problem("C01", "visitor-"+kind, "concurrent Visitor on snapshot sn=%d (age %d): %s", hs.Sn, age, detail)
			}
			e.sig("visit/age=%d", min(age, 5))
		} else {
			rate := e.o.Refresh[r.Intn(len(e.o.Refresh))]
			got, detail := e.scanDwell(hs, rate, r)
			atomic.AddInt64(&e.scans, 1)
			atomic.AddInt64(&e.scanned, int64(len(got)))
			if detail == "" {
				detail = DiffScan(got, hs.Want)
			}
			if detail != "" {
				e.problem("C01", "snapshot-content", "scan (refresh rate %d) of snapshot sn=%d (age %d epochs, %d open) differs from the content frozen at its creation: %s", rate, hs.Sn, age, len(e.open), detail)
			}
			e.sig("scan/age=%d/rate=%d", min(age, 5), min(rate, 4))
		}
		hs.S.Close()
		e.gate.RUnlock()
	}
}

// scanDwell scans a snapshot; with Dwell it holds each node for a moment and
// re-reads it (the property: a node obtained from an open iterator stays valid
// until the iterator moves).
func (e *Engine) scanDwell(hs *HSnap, rate int, r *rand.Rand) ([][]byte, string) {
	it := hs.S.NewIterator()
	if it == nil {
		return nil, "NewIterator returned nil on an open snapshot"
	}
	defer it.Close()
	if rate > 0 {
		it.SetRefreshRate(rate)
	}
	var out [][]byte
	for it.SeekFirst(); it.Valid(); it.Next() {
		b := append([]byte(nil), it.Get()...)
		if e.o.Dwell && r.Intn(8) == 0 {
			n := it.GetNode()
			for k := 0; k < 1+r.Intn(3); k++ {
				runtime.Gosched()
			}
			_, _, data := nitro.VerifItemMeta(n.Item())
			atomic.AddInt64(&e.dwell, 1)
			if !bytes.Equal(data, b) {
				return out, fmt.Sprintf("item held through the iterator changed while the iterator had not moved: %s -> %s", fmtItem(b), fmtItem(data))
			}
		}
		out = append(out, b)
		if len(out) > len(hs.Want)+1000 {
			return out, fmt.Sprintf("scan does not terminate (%d items returned, snapshot has %d)", len(out), len(hs.Want))
		}
	}
	return out, ""
}

// closeSome closes snapshots according to the policy, from several goroutines.
func (e *Engine) closeSome(final bool) {
	e.mu.Lock()
	var victims []*HSnap
	n := len(e.open)
	keep := e.o.MaxOpen
	if final {
		keep = 0
	}
	order := e.o.CloseOrder
	if order == "random" || order == "" {
		var keepers []*HSnap
		for _, hs := range e.open {
			if final || e.r.Intn(3) == 0 {
				victims = append(victims, hs)
			} else {
				keepers = append(keepers, hs)
			}
		}
		for len(keepers) > keep {
			i := e.r.Intn(len(keepers))
			victims = append(victims, keepers[i])
			keepers = append(keepers[:i], keepers[i+1:]...)
		}
		e.r.Shuffle(len(victims), func(i, j int) { victims[i], victims[j] = victims[j], victims[i] })
		e.open = keepers
	} else if order == "newest-first" {
		for len(e.open) > keep {
			victims = append(victims, e.open[len(e.open)-1])
			e.open = e.open[:len(e.open)-1]
		}
	} else if order == "oldest-last" {
		// close everything but the oldest, then (when over budget) the oldest
		for len(e.open) > 1 && len(e.open) > keep {
			victims = append(victims, e.open[1])
			e.open = append(e.open[:1], e.open[2:]...)
		}
		if final && len(e.open) == 1 {
			victims = append(victims, e.open[0])
			e.open = nil
		}
	}
	e.mu.Unlock()
	if len(victims) == 0 {
		return
	}
	// order signature: relative order of closes
	sig := ""
	for _, v := range victims {
		sig += fmt.Sprintf("%d,", v.Sn)
	}
	e.CloseOrders[fmt.Sprintf("%s:%d:%s", order, n, permClass(victims))] = true
	_ = sig
	if len(victims) > 1 && e.r.Intn(2) == 0 {
		var wg sync.WaitGroup
		for _, v := range victims {
			wg.Add(1)
			go func(v *HSnap) { defer wg.Done(); v.S.Close() }(v)
		}
		wg.Wait()
	} else {
		for _, v := range victims {
			v.S.Close()
		}
	}
}

func permClass(vs []*HSnap) string {
	asc, desc := true, true
	for i := 1; i < len(vs); i++ {
		if vs[i].Sn < vs[i-1].Sn {
			asc = false
		}
		if vs[i].Sn > vs[i-1].Sn {
			desc = false
		}
	}
	switch {
	case len(vs) == 1:
		return "single"
	case asc:
		return "ascending"
	case desc:
		return "descending"
	}
	return fmt.Sprintf("mixed%d", min(len(vs), 5))
}

// checkpoint: explicit GC at a writer-quiescent instant, quiescence probe,
// then reconciliation of statistics (C06), structure walk (C14) and, in
// user-managed mode, reachable ⊆ live-set (C04).
func (e *Engine) checkpoint(where string) {
	e.gate.Lock() // no scanner is inside a scan (and none can start) until the checks are done
	defer e.gate.Unlock()
	e.db.N.GC()
	if !Quiesce(e.db.N) {
		e.c.Inconclusive("quiescence probe did not settle at " + where)
		return
	}
	e.Checkpoints++
	e.mu.Lock()
	minOpen := uint32(0)
	for _, hs := range e.open {
		if minOpen == 0 || hs.Sn < minOpen {
			minOpen = hs.Sn
		}
	}
	nOpen := len(e.open)
	e.mu.Unlock()
	// scanners hold extra references only on snapshots that are in e.open or were
	// just removed; a just-removed snapshot may still be referenced by a scanner.
	// Reconciliation therefore uses what nitro itself reports as open when scanners run.
	cur := e.db.N.GetCurrSn()
	wantLast := cur - 1
	if minOpen != 0 {
		wantLast = minOpen - 1
	}
	last := e.db.N.GetLastGCSn()
	st := e.db.N.VerifStore()
	w := WalkLive(st, e.db.InsCmp(), nitro.ItemSize, 4*(len(e.versions)+16)*8+1024, e.liveFn())
	e.NodesWalked += int64(w.Level0Linked)
	if w.MaxLevelSeen > e.WalkMaxLevel {
		e.WalkMaxLevel = w.MaxLevelSeen
	}
	for _, p := range w.NotLive {
		e.problem("C04", "freed-while-linked", "%s: %s", where, p)
	}
	if len(w.NotLive) > 0 {
		return
	}
	for _, p := range w.Problems {
		e.problem("C14", "structure", "%s: %s", where, p)
	}
	e.db.rawStatsExpected = where != "final-after-trailing"
	for _, p := range ReconcileStats(e.db, w) {
		e.problem("C14", "statistics", "%s: %s", where, p)
	}
	if last != wantLast {
		e.problem("C06", "gc-frontier", "%s: GetLastGCSn()=%d but every snapshot up to %d is closed and GC() ran at quiescence (open=%d, currSn=%d): collection is stuck or skipped", where, last, wantLast, nOpen, cur)
	}
	// predicted physical versions
	{
		want := 0
		for _, vs := range e.versions {
			for _, v := range vs {
				if v.dead == 0 || v.dead > last {
					want++
				}
			}
		}
		if last == wantLast {
			if w.Level0Linked != want {
				e.problem("C06", "node-count", "%s: %d nodes are physically present, reference predicts %d (live items + versions with deadSn > lastGCSn=%d); open=%d", where, w.Level0Linked, want, last, nOpen)
			}
			if w.Level0Marked != 0 {
				e.problem("C06", "soft-deletes", "%s: %d marked nodes still linked on level 0 at quiescence", where, w.Level0Marked)
			}
			e.Reconciled++
		}
		mem := e.db.N.MemoryInUse()
		if nOpen == 0 && where == "final" {
			if mem != w.Bytes {
				e.problem("C06", "memory-in-use", "%s: MemoryInUse()=%d with no snapshot open, walk of the structure measures %d", where, mem, w.Bytes)
			}
		} else if mem < w.Bytes {
			e.problem("C06", "memory-in-use", "%s: MemoryInUse()=%d is below the %d bytes the linked nodes account for", where, mem, w.Bytes)
		}
	}
	if e.db.A != nil {
		// reachable ⊆ live-set at every level
		for _, n := range w.Nodes {
			if !e.db.A.IsLive(unsafe.Pointer(n)) {
				e.problem("C04", "linked-node-not-live", "%s: a node linked on level 0 is not a live allocator block", where)
				break
			}
			if !e.db.A.IsLive(n.Item()) {
				e.problem("C04", "linked-item-not-live", "%s: the item of a linked node is not a live allocator block", where)
				break
			}
		}
		for n := range w.ReachableUpper {
			if !e.db.A.IsLive(unsafe.Pointer(n)) {
				e.problem("C04", "upper-linked-node-not-live", "%s: a node still linked at an upper level has been released", where)
				break
			}
		}
		if w.UpperMarked > 0 {
			e.sig("upper-marked-at-quiescence")
		}
		e.db.A.CheckQuarantine()
	}
}

func (e *Engine) collectAllocViolations() {
	if e.db.A == nil {
		return
	}
	for _, v := range e.db.A.Violations() {
		prop := "C04"
		e.problem(prop, "alloc-"+v.Kind, "%s of block %s (%d bytes): %s alloc=[%s] free=[%s] second=[%s]", v.Kind, v.Addr, v.Size, v.Detail, v.Alloc, v.Free, v.Second)
	}
}

// Run executes the whole history. Returns after Close (user-managed: with the
// C07 epilogue evaluated).
func (e *Engine) Run() {
	o := e.o
	defer e.unhook()
	for i := 0; i < o.Scanners; i++ {
		e.scanWG.Add(1)
		go e.scanner(i)
	}
	for ph := 0; ph < o.Phases && !e.failed(); ph++ {
		e.runPhase(ph)
		if e.failed() {
			break
		}
		e.newSnapshot()
		if o.GCStorm {
			var wg sync.WaitGroup
			for g := 0; g < 4; g++ {
				wg.Add(1)
				go func() { defer wg.Done(); e.db.N.GC() }()
			}
			wg.Wait()
		}
		if o.CloseOrder != "keep-all" {
			e.closeSome(false)
		}
		if o.Checkpoints && (ph%3 == 2 || e.everyPhase) {
			e.checkpoint(fmt.Sprintf("after phase %d", ph))
		}
	}
	atomic.StoreInt32(&e.stop, 1)
	e.scanWG.Wait()
	// final: scan every snapshot still open once more, then close all
	e.mu.Lock()
	rest := append([]*HSnap(nil), e.open...)
	e.mu.Unlock()
	for _, hs := range rest {
		if e.failed() {
			break
		}
		got, _ := Scan(hs.S, 0)
		if d := DiffScan(got, hs.Want); d != "" {
			e.problem("C01", "snapshot-content", "final scan of snapshot sn=%d differs: %s", hs.Sn, d)
		}
	}
	if o.CloseOrder == "keep-all" {
		// close in a seeded permutation
		e.mu.Lock()
		e.r.Shuffle(len(e.open), func(i, j int) { e.open[i], e.open[j] = e.open[j], e.open[i] })
		vs := e.open
		e.open = nil
		e.mu.Unlock()
		e.CloseOrders["keep-all:"+permClass(vs)] = true
		for _, v := range vs {
			v.S.Close()
		}
	} else {
		e.closeSome(true)
	}
	e.mu.Lock()
	for _, hs := range e.open {
		hs.S.Close()
	}
	e.open = nil
	e.mu.Unlock()
	if e.failed() {
		e.collectAllocViolations()
		return
	}
	if o.TrailingOps {
		// leave garbage in every queue: current-epoch deletes in the writers' lists, no final GC pass
		e.runPhase(o.Phases)
		if e.db.A != nil {
			e.db.A.SetOnFree(nil)
		}
		e.db.N.Close()
		if e.db.A != nil {
			e.collectAllocViolations()
			if n := e.db.A.LiveCount(); n != 0 {
				e.problem("C07", "leak", "%d blocks still allocated after Close() with garbage pending in the writers' lists; first: %+v", n, e.db.A.Leaks(3))
			}
			e.db.A.CheckQuarantine()
			e.collectAllocViolations()
		}
		return
	}
	e.checkpoint("final")
	e.collectAllocViolations()
	idleUnfreed := false
	if e.db.A != nil && !e.failed() {
		// idle database: nothing unlinked may remain unfreed (C17 at nitro level)
		w := Walk(e.db.N.VerifStore(), e.db.InsCmp(), nitro.ItemSize, 1<<30)
		wantLive := 2*w.Level0Linked + 2
		if got := e.db.A.LiveCount(); got != wantLive {
			e.problem("C17", "idle-unfreed", "idle database: %d allocator blocks are live but the structure accounts for %d (2 per linked node + 2 sentinels): unlinked nodes are waiting for a future flush", got, wantLive)
			idleUnfreed = true
		}
	}
	if e.failed() && !idleUnfreed {
		return
	}
	if e.db.A != nil {
		e.db.A.SetOnFree(nil) // Close releases linked nodes by design
	}
	e.db.N.Close()
	if e.db.A != nil {
		e.collectAllocViolations()
		if n := e.db.A.LiveCount(); n != 0 {
			lk := e.db.A.Leaks(3)
			e.problem("C07", "leak", "%d blocks still allocated after Close(); first: %+v", n, lk)
		}
		e.db.A.CheckQuarantine()
		e.collectAllocViolations()
	}
}

// Report transfers the engine's observations into the case result. mine lists
// the property tags that count as violations of the running check; problems
// with other tags make the case inconclusive (the history is no longer trusted).
func (e *Engine) Report(mine ...string) {
	c := e.c
	is := map[string]bool{}
	for _, m := range mine {
		is[m] = true
	}
	for _, p := range e.probs {
		if is[p.Prop] {
			c.Violate(p.Kind, p.Detail, map[string]interface{}{"engine": e.o})
		}
	}
	for _, p := range e.probs {
		if !is[p.Prop] {
			c.Inconclusive(fmt.Sprintf("oracle of %s fired during this case (%s: %s)", p.Prop, p.Kind, p.Detail))
		}
	}
	c.Count("scans_compared", e.scans)
	c.Count("items_scanned", e.scanned)
	c.Count("visitor_passes", e.visits)
	c.Count("dwell_rereads", e.dwell)
	c.Count("checkpoints", int64(e.Checkpoints))
	c.Count("checkpoints_reconciled", int64(e.Reconciled))
	c.Count("nodes_walked", e.NodesWalked)
	if e.db.A != nil {
		st := e.db.A.Stats()
		c.Count("blocks_allocated", st.Allocs)
		c.Count("blocks_freed", st.Frees)
		c.Count("frees_under_page_guard", st.GuardedFrees)
		c.Count("pageguard_fallbacks", st.FallbackPoison)
	}
	var cos []string
	for k := range e.CloseOrders {
		cos = append(cos, k)
	}
	sort.Strings(cos)
	c.Sample(map[string]interface{}{"engine": e.o, "snapshots": e.allSn, "close_orders": cos, "scans": e.scans, "checkpoints": e.Checkpoints})
}

func (e *Engine) liveFn() func(unsafe.Pointer) bool {
	if e.db.A == nil {
		return nil
	}
	return e.db.A.IsLive
}
