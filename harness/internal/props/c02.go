package props

import (
	"bytes"
	"fmt"

	"github.com/couchbase/nitro"
	"github.com/couchbase/nitro/skiplist"

	"nitroverif/internal/rt"
)

// C02 — sequential set semantics against a reference set.

type c02key struct {
	live      bool
	bornEpoch uint32 // epoch of the live version
	deadEpoch uint32 // epoch of the last delete (0 = never)
	version   int
	item      []byte
}

func (k *c02key) class(cur uint32) string {
	switch {
	case k.live && k.bornEpoch == cur && k.deadEpoch == cur:
		return "live-reborn-this-epoch"
	case k.live && k.bornEpoch == cur:
		return "live-born-this-epoch"
	case k.live:
		return "live-born-earlier"
	case k.deadEpoch == 0:
		return "never"
	case k.deadEpoch == cur:
		return "deleted-this-epoch"
	default:
		return "deleted-earlier"
	}
}

type c02handle struct {
	n       *skiplist.Node
	key     int
	version int
}

func runC02(c *rt.C) {
	r := c.Rng
	mem := memModes()[c.Index%3]
	kv := (c.Index/3)%3 == 1
	rev := (c.Index/3)%3 == 2
	nKeys := 2 + r.Intn(11)
	nWriters := 1 + r.Intn(4)
	nOps := 300
	if c.Tier == "thorough" {
		nOps = 600
	}
	db := OpenDB(DBOpt{Mem: mem, KV: kv, Rev: rev})
	ws := make([]*nitro.Writer, nWriters)
	for i := range ws {
		ws[i] = db.N.NewWriter()
	}
	keys := make([]*c02key, nKeys)
	for i := range keys {
		keys[i] = &c02key{}
	}
	model := db.NewModel()
	type osnap struct {
		s    *nitro.Snapshot
		want []Entry
	}
	var snaps []osnap
	var handles []c02handle
	var trace []string
	valctr := 0
	epoch := func() uint32 { return db.N.GetCurrSn() }
	fail := func(kind, f string, a ...interface{}) {
		t := trace
		if len(t) > 60 {
			t = t[len(t)-60:]
		}
		c.Violate(kind, fmt.Sprintf(f, a...), map[string]interface{}{"mem": mem, "kv": kv, "keys": nKeys, "writers": nWriters, "last_ops": t})
	}
	checkSnap := func(os osnap, why string) {
		got, ok := Scan(os.s, pick(r, 0, 0, 1, 3))
		if !ok {
			fail("scan-open-failed", "NewIterator returned nil on an open snapshot (%s)", why)
			return
		}
		if d := DiffScan(got, os.want); d != "" {
			fail("snapshot-content", "%s: snapshot sn=%d differs from reference set: %s", why, os.s.VerifSn(), d)
		}
		if os.s.Count() != int64(len(os.want)) {
			fail("snapshot-count", "%s: Count()=%d, reference has %d", why, os.s.Count(), len(os.want))
		}
	}
	for op := 0; op < nOps && !c.Failed(); op++ {
		w := ws[r.Intn(nWriters)]
		kid := r.Intn(nKeys)
		k := keys[kid]
		cls := k.class(epoch())
		kb := string(KeyBytes(kid))
		switch x := r.Intn(100); {
		case x < 34: // Put2
			valctr++
			item := db.Item(kid, fmt.Sprintf("v%d", valctr))
			n := w.Put2(item)
			want := !k.live
			trace = append(trace, fmt.Sprintf("Put2(k%d)=%v", kid, n != nil))
			c.Sig("put/%s/%v", cls, n != nil)
			if (n != nil) != want {
				fail("put-result", "Put2(%q) returned success=%v but reference says %v (key state %s)", kb, n != nil, want, cls)
				break
			}
			if want {
				model.Put(kb, item)
				k.live, k.bornEpoch, k.item = true, epoch(), item
				k.version++
				if len(handles) < 64 {
					handles = append(handles, c02handle{n, kid, k.version})
				}
				_, _, data := nitro.VerifItemMeta(n.Item())
				if !bytes.Equal(data, item) {
					fail("put-node-bytes", "node returned by Put2 holds %s, want %s", fmtItem(data), fmtItem(item))
				}
			}
		case x < 62: // Delete / Delete2 / GetNode+DeleteNode
			item := db.Item(kid, "probe")
			var ok bool
			how := r.Intn(3)
			switch how {
			case 0:
				ok = w.Delete(item)
			case 1:
				var n *skiplist.Node
				n, ok = w.Delete2(item)
				if ok && n == nil {
					fail("delete2-node", "Delete2 succeeded with nil node")
				}
			default:
				if n := w.GetNode(item); n != nil {
					ok = w.DeleteNode(n)
				}
			}
			trace = append(trace, fmt.Sprintf("Delete[%d](k%d)=%v", how, kid, ok))
			c.Sig("delete%d/%s/%v", how, cls, ok)
			if ok != k.live {
				fail("delete-result", "Delete(%q) returned %v but reference says %v (key state %s)", kb, ok, k.live, cls)
				break
			}
			if ok {
				model.Delete(kb)
				k.live, k.deadEpoch = false, epoch()
			}
		case x < 70 && len(handles) > 0: // DeleteNode through a handle kept from an earlier Put2 (still the live version)
			hi := r.Intn(len(handles))
			h := handles[hi]
			hk := keys[h.key]
			handles = append(handles[:hi], handles[hi+1:]...)
			if !(hk.live && hk.version == h.version) {
				break // node already deleted: using the handle would be outside the API contract
			}
			hcls := hk.class(epoch())
			ok := w.DeleteNode(h.n)
			trace = append(trace, fmt.Sprintf("DeleteNode(handle k%d v%d)=%v", h.key, h.version, ok))
			c.Sig("deletenode-handle/%s/%v", hcls, ok)
			if !ok {
				fail("deletenode-result", "DeleteNode(handle of live k%d version %d) returned false", h.key, h.version)
				break
			}
			model.Delete(string(KeyBytes(h.key)))
			hk.live, hk.deadEpoch = false, epoch()
			if mem == "go" && r.Intn(2) == 0 {
				// Go-managed memory only (the node is still valid memory), immediately and in the same
				// epoch: deleting the node a second time must fail and change nothing — the item no
				// longer exists. (The count is compared at the next snapshot.)
				again := w.DeleteNode(h.n)
				trace = append(trace, fmt.Sprintf("DeleteNode(same handle again)=%v", again))
				c.Sig("deletenode-handle-again/%s/%v", hcls, again)
				if again {
					fail("deletenode-result", "DeleteNode(handle of k%d version %d) succeeded a second time in the same epoch", h.key, h.version)
					break
				}
			}
		case x < 84: // GetNode
			n := w.GetNode(db.Item(kid, "probe"))
			trace = append(trace, fmt.Sprintf("GetNode(k%d)=%v", kid, n != nil))
			c.Sig("get/%s/%v", cls, n != nil)
			if (n != nil) != k.live {
				fail("lookup-result", "GetNode(%q) found=%v but reference says live=%v (key state %s)", kb, n != nil, k.live, cls)
				break
			}
			if n != nil {
				_, _, data := nitro.VerifItemMeta(n.Item())
				if !bytes.Equal(data, k.item) {
					fail("lookup-bytes", "GetNode(%q) holds %s, reference has %s", kb, fmtItem(data), fmtItem(k.item))
				}
			}
		case x < 94: // NewSnapshot
			s, err := db.N.NewSnapshot()
			if err != nil {
				fail("newsnapshot-error", "NewSnapshot: %v", err)
				break
			}
			trace = append(trace, fmt.Sprintf("NewSnapshot=%d", s.VerifSn()))
			os := osnap{s, model.Snapshot()}
			if db.N.ItemsCount() != int64(model.Len()) {
				fail("items-count", "ItemsCount()=%d after NewSnapshot, reference has %d", db.N.ItemsCount(), model.Len())
			}
			checkSnap(os, "fresh snapshot")
			snaps = append(snaps, os)
			c.Count("snapshots", 1)
		default: // close a random snapshot (after re-checking it)
			if len(snaps) > 0 {
				i := r.Intn(len(snaps))
				checkSnap(snaps[i], "before close")
				snaps[i].s.Close()
				trace = append(trace, fmt.Sprintf("Close(sn=%d)", snaps[i].s.VerifSn()))
				snaps = append(snaps[:i], snaps[i+1:]...)
			}
		}
		c.Evals(1)
	}
	for _, os := range snaps {
		if !c.Failed() {
			checkSnap(os, "final check")
		}
		os.s.Close()
	}
	if !c.Failed() {
		s, _ := db.N.NewSnapshot()
		checkSnap(osnap{s, model.Snapshot()}, "last snapshot")
		s.Close()
	}
	c.Sample(map[string]interface{}{"mem": mem, "kv": kv, "keys": nKeys, "writers": nWriters, "first_ops": firstN(trace, 25)})
	if !c.Failed() {
		db.N.Close()
	}
}

func firstN(s []string, n int) []string {
	if len(s) > n {
		return s[:n]
	}
	return s
}

func init() {
	rt.Register(&rt.Prop{
		ID: "C02", Level: "exploration",
		Technique: "reference-model monitor over seeded random single-goroutine programs (runtime monitoring)",
		Rule: "each case = one seeded random program of Put2/Delete/Delete2/GetNode+DeleteNode/DeleteNode(stale handle, Go memory)/GetNode/NewSnapshot/Close over 2-12 keys and 1-4 writers, " +
			"memory mode and comparator rotate with the case index; every result is compared with a reference set, every snapshot scanned and counted. " +
			"evaluations = API calls checked; distinct = (operation, key-state class, result) triples observed, key-state class ∈ {never, live-born-this-epoch, live-born-earlier, live-reborn-this-epoch, deleted-this-epoch, deleted-earlier}",
		Assumptions: []string{"one goroutine drives all writers (sequential semantics)", "a node handle is used only while its node has not been deleted, except for an immediate second DeleteNode in the same epoch with Go-managed memory (must fail without side effects)"},
		Cases: func(t string) int {
			if t == "thorough" {
				return 6000
			}
			return 240
		},
		Batch:   func(t string) int { return 30 },
		Procs:   8,
		MinSigs: 20,
		Run:     runC02,
	})
}
