package props

import (
	"fmt"
	"math/rand"
	"runtime"
	"sync"
	"sync/atomic"
	"unsafe"

	"github.com/couchbase/nitro/skiplist"

	"nitroverif/internal/rt"
)

// C16 (barrier safety) and C17 (barrier liveness at quiescence) on the bare
// AccessBarrier, obtained through a skiplist.Config with a harness destructor.

type flushRec struct {
	id        int
	seq       int64 // order in which flushes took the barrier's mutex (from the hook)
	called    int64 // logical stamp before FlushSession was called
	destructs int32
	dstamp    int64 // stamp at destructor entry
	actor     int
}

type accRec struct {
	actor     int
	acquired  int64 // stamp after Acquire returned
	releasing int64 // stamp before Release was called (0 = not yet)
	session   *skiplist.BarrierSession
}

type barEnv struct {
	sl        *skiplist.Skiplist
	ab        *skiplist.AccessBarrier
	mu        sync.Mutex
	flushes   []*flushRec
	accs      []*accRec
	dorder    []*flushRec // destructor call order
	destroyed map[*skiplist.BarrierSession]bool
	flushSeq  int64
	problems  []EngProblem
	nextFlush int
	// flushes without an object (nitro does this for an empty garbage list): their destructor
	// calls cannot be told apart, so they are counted
	nilFlushes   int64
	nilDestructs int64
	callbacks    int64 // all destructor calls, nil or not
}

func (b *barEnv) problem(prop, kind, f string, a ...interface{}) {
	b.mu.Lock()
	if len(b.problems) < 8 {
		b.problems = append(b.problems, EngProblem{prop, kind, fmt.Sprintf(f, a...)})
	}
	b.mu.Unlock()
}

func newBarEnv() *barEnv {
	b := &barEnv{destroyed: map[*skiplist.BarrierSession]bool{}}
	cfg := skiplist.DefaultConfig()
	cfg.UseMemoryMgmt = true
	cfg.Malloc = func(n int) unsafe.Pointer { buf := make([]byte, n+8); return unsafe.Pointer(&buf[0]) } // only head/tail are allocated; kept alive by the skiplist
	cfg.Free = func(unsafe.Pointer) {}
	cfg.BarrierDestructor = func(ref unsafe.Pointer) {
		atomic.AddInt64(&b.callbacks, 1)
		if ref == nil {
			if d, f := atomic.AddInt64(&b.nilDestructs, 1), atomic.LoadInt64(&b.nilFlushes); d > f {
				b.problem("C16", "destructed-twice", "the destructor has run %d times for flushes without an object, only %d such flushes were made", d, f)
			}
			return
		}
		r := (*flushRec)(ref)
		st := Tick()
		if atomic.AddInt32(&r.destructs, 1) == 1 {
			r.dstamp = st
		}
		b.mu.Lock()
		b.dorder = append(b.dorder, r)
		b.mu.Unlock()
	}
	b.sl = skiplist.NewWithConfig(cfg)
	b.ab = b.sl.GetAccesBarrier()
	return b
}

// monitor part of the hook (always on): flush order and destructed sessions
func (b *barEnv) observe(id int, arg unsafe.Pointer) {
	switch id {
	case skiplist.VpFlushLocked:
		if arg != nil {
			(*flushRec)(arg).seq = atomic.AddInt64(&b.flushSeq, 1)
		}
	case skiplist.VpCleanupBeforeDestruct:
		b.mu.Lock()
		b.destroyed[(*skiplist.BarrierSession)(arg)] = true
		b.mu.Unlock()
	}
}

func (b *barEnv) acquire(actor int) *accRec {
	s := b.ab.Acquire()
	r := &accRec{actor: actor, session: s, acquired: Tick()}
	b.mu.Lock()
	if b.destroyed[s] {
		b.problems = append(b.problems, EngProblem{"C16", "acquired-destructed-session", fmt.Sprintf("actor %d: Acquire returned a session whose destruction had already begun", actor)})
	}
	b.accs = append(b.accs, r)
	b.mu.Unlock()
	return r
}

func (b *barEnv) release(r *accRec) {
	r.releasing = Tick()
	b.ab.Release(r.session)
}

func (b *barEnv) flush(actor int) *flushRec {
	b.mu.Lock()
	r := &flushRec{id: b.nextFlush, actor: actor}
	b.nextFlush++
	b.flushes = append(b.flushes, r)
	b.mu.Unlock()
	r.called = Tick()
	b.ab.FlushSession(unsafe.Pointer(r))
	return r
}

// flushNil is a FlushSession call without an object.
func (b *barEnv) flushNil() {
	atomic.AddInt64(&b.nilFlushes, 1)
	Tick()
	b.ab.FlushSession(nil)
}

// judge evaluates the safety oracles (C16) and, at quiescence, the liveness
// oracles (C17).
func (b *barEnv) judge(quiescent bool) {
	b.mu.Lock()
	flushes := append([]*flushRec(nil), b.flushes...)
	accs := append([]*accRec(nil), b.accs...)
	dorder := append([]*flushRec(nil), b.dorder...)
	b.mu.Unlock()
	// (a) destruction waits for earlier accessors
	for _, f := range flushes {
		if atomic.LoadInt32(&f.destructs) == 0 {
			continue
		}
		for _, a := range accs {
			if a.acquired < f.called && (a.releasing == 0 || f.dstamp < a.releasing) {
				b.problem("C16", "destructed-before-release", "destructor of flush #%d (called at %d) ran at %d although actor %d, whose Acquire completed at %d (before the flush), had not called Release yet (release at %d)",
					f.id, f.called, f.dstamp, a.actor, a.acquired, a.releasing)
			}
		}
	}
	// (b) destructors in flush order
	for i := 1; i < len(dorder); i++ {
		if dorder[i-1].seq != 0 && dorder[i].seq != 0 && dorder[i-1].seq > dorder[i].seq {
			b.problem("C16", "destruct-order", "destructor of flush with close number %d ran before that of close number %d", dorder[i-1].seq, dorder[i].seq)
		}
	}
	// (c) at most once, and at quiescence exactly once
	for _, f := range flushes {
		n := atomic.LoadInt32(&f.destructs)
		if n > 1 {
			b.problem("C16", "destructed-twice", "destructor of flush #%d ran %d times", f.id, n)
		}
		if quiescent && n == 0 {
			b.problem("C17", "pending-at-quiescence", "every accessor has released and no call is in progress, but the destructor of flush #%d (close number %d, %d flushes in total) has not run", f.id, f.seq, len(flushes))
		}
	}
	if quiescent {
		if d, f := atomic.LoadInt64(&b.nilDestructs), atomic.LoadInt64(&b.nilFlushes); d < f {
			b.problem("C17", "pending-at-quiescence", "every accessor has released and no call is in progress, but the destructor has run only %d times for the %d FlushSession calls made without an object", d, f)
		}
		if _, freed, _, _ := b.ab.GetStats(); freed != atomic.LoadInt64(&b.callbacks) {
			b.problem("C16", "destructed-without-callback", "the barrier destructed %d sessions but the destructor callback ran %d times (exactly once per flush)", freed, atomic.LoadInt64(&b.callbacks))
		}
		alloc, freed, queued, _ := b.ab.GetStats()
		if alloc-freed != 1 || queued != 0 {
			b.problem("C17", "stats-at-quiescence", "barrier statistics at quiescence: allocated=%d freed=%d queued=%d (expected allocated-freed=1, queued=0)", alloc, freed, queued)
		}
	}
}

// ---------------------------------------------------------------------------
// serialized scenarios

type bScenario struct {
	Name  string
	Setup string   // ops run before the controlled part; each A hands its token to the actor with that index
	Progs []string // per actor: A acquire, R release (LIFO), F flush, r release of the setup token
}

var barScenarios = []bScenario{
	{"acq-rel || flush", "", []string{"AR", "F"}},
	{"acq-rel || acq-rel || flush", "", []string{"AR", "AR", "F"}},
	{"acq-rel || flush || flush", "", []string{"AR", "F", "F"}},
	{"hold || flush;flush", "", []string{"AR", "FF"}},
	{"acq;flush;rel || acq-rel", "", []string{"AFR", "AR"}},
	{"release(t1) || release(t2) after two flushes", "AFAF", []string{"r", "r"}},
	{"nested holder || flush", "", []string{"AARR", "F"}},
	{"release(t1) || release(t2) || acq-rel after two flushes", "AFAF", []string{"r", "r", "AR"}},
	{"flush || flush || release(t1)", "A", []string{"rF", "F"}},
	{"3 releases after 3 flushes", "AFAFAF", []string{"r", "r", "r"}},
	{"acq;flush;rel || acq;flush;rel", "", []string{"AFR", "AFR"}},
	{"acq-rel || acq-rel || flush || flush", "", []string{"AR", "AR", "F", "F"}},
	{"release(t1) || flush;flush || acq-rel", "A", []string{"r", "FF", "AR"}},
	// N = FlushSession(nil): a flush without an object still gets its destructor call
	{"acq-rel || flush(nil);flush", "", []string{"AR", "NF"}},
	{"hold || flush;flush(nil)", "", []string{"AR", "FN"}},
	{"release(t1) || release(t2) after flush and flush(nil)", "AFAN", []string{"r", "r"}},
}

var fullPoints = []int{skiplist.VpAcqLoaded, skiplist.VpAcqIncremented, skiplist.VpRelBeforeDec, skiplist.VpRelLatched, skiplist.VpRelEnqueued,
	skiplist.VpRelCleanupDone, skiplist.VpRelUnlocked, skiplist.VpCleanupLoop, skiplist.VpCleanupBeforeDestruct, skiplist.VpFlushBeforeLock,
	skiplist.VpFlushLocked, skiplist.VpFlushSwapped, skiplist.VpFlushBeforeOffset, skiplist.VpFlushBeforeRelease,
	// the barrier's queue of terminated sessions is itself a skiplist: its publish point lets the
	// controller hold a releaser inside the queue insert (between latching and being visible)
	skiplist.VpInsBeforePublish}

// coarse: the points the properties name (between queue insert, try-lock, queue walk, try-lock release; Acquire's load/increment; flush swap/offset)
var coarsePoints = []int{skiplist.VpAcqLoaded, skiplist.VpAcqIncremented, skiplist.VpRelBeforeDec, skiplist.VpRelEnqueued,
	skiplist.VpRelCleanupDone, skiplist.VpRelUnlocked, skiplist.VpFlushBeforeLock, skiplist.VpFlushLocked, skiplist.VpFlushBeforeOffset}

type barRunResult struct {
	schedules int
	sigs      map[string]bool
	exhausted bool
	problems  []EngProblem
	witness   []string
	sample    []string
}

// runBarScenario explores one scenario. maxSched bounds the DFS; beyond it the
// remaining budget is spent on seeded random schedules.
func runBarScenario(sc bScenario, points []int, maxSched int, randomExtra int, seed int64) barRunResult {
	res := barRunResult{sigs: map[string]bool{}}
	pset := map[int]bool{}
	for _, p := range points {
		pset[p] = true
	}
	names := make([]string, len(sc.Progs))
	for i := range names {
		names[i] = fmt.Sprintf("a%d[%s]", i, sc.Progs[i])
	}
	var prefix []int
	rng := rand.New(rand.NewSource(seed))
	one := func(prefix []int, random bool) ([]sChoice, bool) {
		b := newBarEnv()
		ctl := &sCtl{yieldc: make(chan sYield), points: pset, prefix: prefix, maxStep: 400}
		if random {
			ctl.rng = rng
		}
		// setup (uncontrolled: ctl.cur == nil so the hook only observes)
		skiplist.VerifSetHook(func(id int, arg unsafe.Pointer) {
			b.observe(id, arg)
			ctl.hook(id, arg)
		})
		var setupTokens []*accRec
		for _, op := range sc.Setup {
			switch op {
			case 'A':
				setupTokens = append(setupTokens, b.acquire(100+len(setupTokens)))
			case 'F':
				b.flush(100)
			case 'N':
				b.flushNil()
			}
		}
		for i, prog := range sc.Progs {
			i, prog := i, prog
			a := &sActor{id: i, resume: make(chan struct{})}
			a.prog = func(a *sActor) {
				var stack []*accRec
				for _, op := range prog {
					switch op {
					case 'A':
						stack = append(stack, b.acquire(i))
					case 'R':
						r := stack[len(stack)-1]
						stack = stack[:len(stack)-1]
						b.release(r)
					case 'r':
						r := setupTokens[i]
						r.actor = i
						b.release(r)
					case 'F':
						b.flush(i)
					case 'N':
						b.flushNil()
					}
					a.ret(ctl)
				}
			}
			ctl.actors = append(ctl.actors, a)
		}
		complete := ctl.run()
		skiplist.VerifSetHook(nil)
		for _, a := range ctl.actors {
			if a.panicV != nil {
				b.problem("C16", "barrier-panic", "actor %s panicked inside the barrier: %v", names[a.id], a.panicV)
			}
		}
		if complete {
			b.judge(true)
		}
		res.schedules++
		res.sigs[traceSig(ctl.trace)] = true
		if res.sample == nil {
			res.sample = traceString(ctl.trace, names)
		}
		if len(b.problems) > 0 && len(res.problems) == 0 {
			res.problems = b.problems
			res.witness = traceString(ctl.trace, names)
		}
		return append([]sChoice(nil), ctl.choices...), complete
	}
	for {
		ch, _ := one(prefix, false)
		prefix = nextPrefix(ch)
		if prefix == nil {
			res.exhausted = true
			break
		}
		if res.schedules >= maxSched {
			break
		}
	}
	if !res.exhausted {
		for i := 0; i < randomExtra; i++ {
			one(nil, true)
		}
	}
	return res
}

// ---------------------------------------------------------------------------
// stress (real concurrency, conservative stamps)

func barStress(c *rt.C, r *rand.Rand) *barEnv {
	b := newBarEnv()
	nAcc := 1 + r.Intn(16)
	nFl := 1 + r.Intn(4)
	rounds := 30 + r.Intn(60)
	y := yielder(r.Int63(), pick(r, 1, 4, 8))
	skiplist.VerifSetHook(func(id int, arg unsafe.Pointer) {
		b.observe(id, arg)
		if id <= skiplist.VpFlushBeforeRelease {
			y()
		}
	})
	defer skiplist.VerifSetHook(nil)
	var wg sync.WaitGroup
	for a := 0; a < nAcc; a++ {
		wg.Add(1)
		go func(a int) {
			defer wg.Done()
			defer func() {
				if p := recover(); p != nil {
					b.problem("C16", "barrier-panic", "accessor %d panicked inside the barrier: %v", a, p)
				}
			}()
			lr := rand.New(rand.NewSource(int64(a) + c.Seed))
			for i := 0; i < rounds; i++ {
				t := b.acquire(a)
				var t2 *accRec
				if lr.Intn(4) == 0 {
					t2 = b.acquire(a) // nested holder
				}
				for k := lr.Intn(4); k > 0; k-- {
					runtime.Gosched()
				}
				if lr.Intn(8) == 0 {
					b.flush(a) // flush by a goroutine that holds a token
				}
				if t2 != nil {
					b.release(t2)
				}
				b.release(t)
			}
		}(a)
	}
	for f := 0; f < nFl; f++ {
		wg.Add(1)
		go func(f int) {
			defer wg.Done()
			defer func() {
				if p := recover(); p != nil {
					b.problem("C16", "barrier-panic", "flusher %d panicked inside the barrier: %v", f, p)
				}
			}()
			for i := 0; i < rounds; i++ {
				if (i+f)%4 == 3 {
					b.flushNil()
				} else {
					b.flush(1000 + f)
				}
				runtime.Gosched()
			}
		}(f)
	}
	wg.Wait()
	b.judge(true) // every actor joined: quiescent by construction
	c.Sig("stress/acc=%d/fl=%d", min(nAcc, 8), nFl)
	return b
}

func runBarrier(c *rt.C, mine string) {
	nsc := len(barScenarios)
	if c.Index < 2*nsc {
		sc := barScenarios[c.Index%nsc]
		pts, gran := coarsePoints, "coarse"
		maxS, extra := 40000, 1000
		if c.Index >= nsc {
			pts, gran = fullPoints, "full"
			maxS, extra = 20000, 2000
		}
		if c.Tier == "thorough" {
			maxS, extra = 1500000, 50000
		}
		res := runBarScenario(sc, pts, maxS, extra, c.Seed+int64(c.Index))
		c.Evals(int64(res.schedules))
		for s := range res.sigs {
			c.Sig("%s/%s/%s", sc.Name, gran, s)
		}
		c.Count("schedules", int64(res.schedules))
		if res.exhausted {
			c.Count("scenarios_exhausted", 1)
		}
		c.Sample(map[string]interface{}{"scenario": sc.Name, "setup": sc.Setup, "programs": sc.Progs, "granularity": gran, "schedules": res.schedules,
			"distinct_signatures": len(res.sigs), "exhaustive": res.exhausted, "one_schedule": res.sample})
		for _, p := range res.problems {
			w := map[string]interface{}{"scenario": sc.Name, "setup": sc.Setup, "programs": sc.Progs, "granularity": gran, "schedule": res.witness}
			if p.Prop == mine {
				c.Violate(p.Kind, fmt.Sprintf("scenario {%s} (%s points): %s", sc.Name, gran, p.Detail), w)
			} else {
				c.Count("other_property_oracle_fired", 1)
			}
		}
		return
	}
	rounds := 8
	for i := 0; i < rounds; i++ {
		b := barStress(c, c.Rng)
		c.Evals(1)
		c.Count("stress_flushes", int64(len(b.flushes)))
		c.Count("stress_accessor_intervals", int64(len(b.accs)))
		for _, p := range b.problems {
			if p.Prop == mine {
				c.Violate(p.Kind, "stress: "+p.Detail, nil)
			}
		}
	}
	c.Sample(map[string]interface{}{"stress_rounds": rounds})
}

func barPost(tier string, results []rt.Result, cov map[string]interface{}) {
	var rows []interface{}
	for _, r := range results {
		if m, ok := r.Sample.(map[string]interface{}); ok {
			if _, ok := m["scenario"]; ok {
				rows = append(rows, map[string]interface{}{"scenario": m["scenario"], "granularity": m["granularity"], "schedules": m["schedules"],
					"distinct_signatures": m["distinct_signatures"], "exhaustive": m["exhaustive"]})
			}
		}
	}
	cov["scenarios"] = rows
}

func init() {
	cases := func(t string) int {
		if t == "thorough" {
			return 2*len(barScenarios) + 400
		}
		return 2*len(barScenarios) + 28
	}
	rule := "cases 0..2S-1 explore the S=16 scripted scenarios ({acq-rel ‖ flush}, {A ‖ A ‖ F}, {A ‖ F ‖ F}, {hold ‖ F;F}, {acq;flush;rel ‖ A}, {release(t1) ‖ release(t2) after two flushes}, nested holder, 3-actor variants, flushes without an object) under the serialized controller: every hook point of Acquire/Release/FlushSession/doCleanup is a scheduling point, exactly one actor runs between points, the choice tree is enumerated depth-first by re-execution (first S cases at the granularity the properties name, next S at full granularity) up to a bound, then seeded random schedules; remaining cases are real-concurrency stress rounds (1-16 accessors with nested holds and flushes while holding, 1-4 flushers) judged with conservative logical stamps. " +
		"evaluations = schedules executed + stress rounds; distinct = distinct (actor, point) arrival-order signatures"
	rt.Register(&rt.Prop{
		ID: "C16", Level: "exploration",
		Technique: "runtime monitoring under a serialized schedule controller (stateless DFS by re-execution over verif hook points) plus stamped stress; oracle = event log of Acquire/Release/FlushSession/destructor",
		Rule:      rule,
		Assumptions: []string{"freeq operations inside the barrier are treated as atomic steps by the controller (they are themselves lock-free skiplist operations covered by C13)",
			"the FlushSession mutex is modelled from its two hook points so the controller never schedules an actor that would block"},
		Cases: cases, Batch: func(t string) int { return 2 }, Procs: 16, MinSigs: 100,
		PostAggregate: barPost,
		Run:           func(c *rt.C) { runBarrier(c, "C16") },
	})
	rt.Register(&rt.Prop{
		ID: "C17", Level: "exploration",
		Technique: "runtime monitoring at quiescence (all actors joined — no time involved): destructor count vs FlushSession count and barrier statistics, over serialized-controller schedules and stress; nitro-level idle check live-set = reachable + sentinels",
		Rule:      rule + "; additionally 12 nitro-level cases: contention/ownership engines in user-managed mode ending idle, where allocator live blocks must equal 2 per linked node + 2 sentinels",
		Assumptions: []string{"'eventually' is used in its bounded form as the property states it: at an instant where every accessor has released and no call is in progress, every flush's destructor has run",
			"quiescence of the bare barrier is established by joining all actor goroutines"},
		Cases: func(t string) int { return cases(t) + 12 }, Batch: func(t string) int { return 2 }, Procs: 16, MinSigs: 100,
		PostAggregate: barPost,
		Run: func(c *rt.C) {
			base := cases(c.Tier)
			if c.Index >= base {
				runC17Nitro(c)
				return
			}
			runBarrier(c, "C17")
		},
	})
}

func runC17Nitro(c *rt.C) {
	r := c.Rng
	mem := []string{"poison", "pageguard"}[c.Index%2]
	if c.Index%3 == 0 {
		o := CtdOpt{Mem: mem, KV: true, NWriters: pick(r, 2, 4, 8), NKeys: pick(r, 1, 2, 4), Phases: 4 + r.Intn(6), Mix: "pingpong", Perturb: pick(r, 1, 4, 8), OpsPerW: 30}
		e := NewContend(c, o)
		e.Run()
		e.Report("C17")
		c.Sig("nitro-idle/contend/mem=%s/w=%d", mem, o.NWriters)
	} else {
		o := EngOpt{Mem: mem, NWriters: pick(r, 2, 4), NKeys: pick(r, 8, 32), Phases: 4 + r.Intn(6), OpsPerWriter: 80, Scanners: 2, Refresh: []int{0, 1},
			CloseOrder: "random", MaxOpen: 2, Perturb: pick(r, 1, 4, 8), DeleteBias: 50}
		e := NewEngine(c, o)
		e.Run()
		e.Report("C17")
		c.Sig("nitro-idle/engine/mem=%s/w=%d", mem, o.NWriters)
	}
	c.Evals(1)
}
