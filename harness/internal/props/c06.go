package props

import (
	"fmt"
	"path/filepath"
	"sync"
	"sync/atomic"
	"unsafe"

	"github.com/couchbase/nitro"

	"nitroverif/internal/rt"
)

// C06 — garbage collection precise and complete.

// c06Directed: two writers delete the same older-epoch key. The loser is parked at a hook point
// (after its lookup / on entry of DeleteNode / right before the dead-stamp CAS) while the winner
// deletes that key and several more; then the loser resumes. After the next snapshot is closed and
// GC() ran at quiescence exactly the live keys may remain.
func c06Directed(c *rt.C, point int, mem string) {
	db := OpenDB(DBOpt{Mem: mem})
	w1, w2 := db.N.NewWriter(), db.N.NewWriter()
	const n = 12
	for i := 0; i < n; i++ {
		w1.Put(KeyBytes(i))
	}
	s0, _ := db.N.NewSnapshot()
	s0.Close()
	parked := make(chan struct{})
	resume := make(chan struct{})
	var once sync.Once
	var loserG int64
	nitro.VerifSetHook(func(id int, arg unsafe.Pointer) {
		if id == point && atomic.LoadInt64(&loserG) == 1 {
			once.Do(func() {
				atomic.StoreInt64(&loserG, 2)
				close(parked)
				<-resume
			})
		}
	})
	defer nitro.VerifSetHook(nil)
	done := make(chan bool)
	go func() {
		atomic.StoreInt64(&loserG, 1)
		done <- w2.Delete(KeyBytes(3))
	}()
	select {
	case <-parked:
	case ok := <-done:
		c.Inconclusive(fmt.Sprintf("hook point %d never reached (Delete returned %v)", point, ok))
		return
	}
	// winner: the contended key and four more
	okW := w1.Delete(KeyBytes(3))
	for _, k := range []int{4, 5, 6, 7} {
		w1.Delete(KeyBytes(k))
	}
	close(resume)
	okL := <-done
	c.Evals(1)
	c.Sig("directed/point=%d/mem=%s/winner=%v/loser=%v", point, mem, okW, okL)
	witness := map[string]interface{}{"parked_at_hook": point, "mem": mem, "winner_result": okW, "loser_result": okL}
	if okW == okL {
		c.Inconclusive(fmt.Sprintf("set-semantics oracle (C03): both deletes of one key returned %v", okW))
		return
	}
	s1, _ := db.N.NewSnapshot()
	live := n - 5
	if s1.Count() != int64(live) {
		c.Inconclusive(fmt.Sprintf("Count()=%d, want %d (C03's oracle)", s1.Count(), live))
	}
	s1.Close()
	db.N.GC()
	if !Quiesce(db.N) {
		c.Inconclusive("quiescence probe did not settle")
		return
	}
	w := Walk(db.N.VerifStore(), db.InsCmp(), nitro.ItemSize, 1000)
	if w.Level0Linked != live {
		c.Violate("node-count", fmt.Sprintf("directed schedule (loser of a contended delete parked at hook %d while the winner deleted 4 more keys): all snapshots closed, GC() ran at quiescence, %d keys live but %d nodes physically present: the winner's garbage list was cut", point, live, w.Level0Linked), witness)
	}
	if last := db.N.GetLastGCSn(); last != db.N.GetCurrSn()-1 {
		c.Violate("gc-frontier", fmt.Sprintf("GetLastGCSn()=%d, currSn=%d", last, db.N.GetCurrSn()), witness)
	}
	c.Sample(witness)
}

// c06Restored: the same accounting on an instance populated by LoadFromDisk: restored items are
// deleted and replaced over a few epochs, every snapshot is closed, GC() runs at quiescence; then
// exactly the live items may be physically present and MemoryInUse / node count / ItemsCount must be
// what they account for (restored nodes are charged and released with the same item sizes).
func c06Restored(c *rt.C, mem string) {
	r := c.Rng
	delta := r.Intn(2) == 0
	kv := r.Intn(2) == 0
	db := OpenDB(DBOpt{Mem: mem, KV: kv, Delta: delta})
	nk := pick(r, 4, 20, 100)
	h := BuildHistory(r, db, HistOpt{NKeys: nk, Epochs: 1 + r.Intn(3), OpsPerEpoch: nk + r.Intn(nk), KeepProb: 0, Writers: 2, DeleteBias: 25})
	target := h.Snaps[len(h.Snaps)-1]
	h.Snaps = nil
	dir := filepath.Join(c.Tmp, "bk")
	if err := db.N.StoreToDisk(dir, target.S, pick(r, 1, 4), nil); err != nil { // consumes the reference
		c.Inconclusive("StoreToDisk failed: " + err.Error())
		return
	}
	fresh := db.Fresh()
	res, stuck, inc := loadWithProbe(fresh, dir, pick(r, 1, 2, 8))
	if inc || stuck || res.pan != nil || res.err != nil {
		c.Inconclusive(fmt.Sprintf("restore did not succeed (stuck=%v panic=%v err=%v): C05/C11's subject", stuck, res.pan, res.err))
		return
	}
	h2 := &Hist{DB: fresh, Model: fresh.NewModel(), NKeys: nk, Versions: map[int]int{}}
	for _, e := range target.Want {
		h2.Model.live[e.Key] = e.Item
	}
	h2.valctr = 1 << 20
	h2.Writers = append(h2.Writers, fresh.N.NewWriter(), fresh.N.NewWriter())
	res.snap.Close()
	witness := map[string]interface{}{"mem": mem, "kv": kv, "delta": delta, "keys": nk, "items_restored": len(target.Want)}
	epochs := 2 + r.Intn(3)
	for e := 0; e < epochs && !c.Failed(); e++ {
		h2.Mutate(r, nk+r.Intn(nk), 60)
		hs := h2.Snapshot()
		hs.S.Close()
		h2.Snaps = nil
		fresh.N.GC()
		if !Quiesce(fresh.N) {
			c.Inconclusive("quiescence probe did not settle")
			return
		}
		live := len(h2.Model.live)
		w := WalkLive(fresh.N.VerifStore(), fresh.InsCmp(), nitro.ItemSize, 1<<22, nil)
		c.Evals(1)
		where := fmt.Sprintf("restored instance, epoch %d after the restore: every snapshot is closed and GC() ran at quiescence, %d keys are live", e+1, live)
		if w.Level0Linked != live {
			c.Violate("node-count", fmt.Sprintf("%s, but %d nodes are still physically present (stranded garbage or lost items)", where, w.Level0Linked), witness)
		}
		if m := fresh.N.MemoryInUse(); m != w.Bytes {
			c.Violate("memory-in-use", fmt.Sprintf("%s: MemoryInUse()=%d, the %d linked nodes account for %d bytes", where, m, w.Level0Linked, w.Bytes), witness)
		}
		if n := fresh.N.ItemsCount(); n != int64(live) {
			c.Violate("items-count", fmt.Sprintf("%s: ItemsCount()=%d", where, n), witness)
		}
		if ps := ReconcileStats(fresh, w); len(ps) > 0 {
			c.Violate("statistics", fmt.Sprintf("%s: %v", where, ps), witness)
		}
	}
	c.Sig("restored/delta=%v/mem=%s/n=%s/epochs=%d", delta, mem, sizeClass(len(target.Want)), epochs)
	if !c.Failed() {
		fresh.N.Close()
		db.N.Close()
	}
	c.Sample(witness)
}

func runC06(c *rt.C) {
	r := c.Rng
	mem := memModes()[c.Index%3]
	if c.Index < 6 {
		c06Directed(c, []int{nitro.VpDelete2Found, nitro.VpDelNodeEntry, nitro.VpDelNodeBeforeCAS}[c.Index%3], []string{"go", "poison"}[c.Index/3])
		return
	}
	if c.Index%12 == 11 {
		c06Restored(c, mem)
		return
	}
	if c.Index%3 == 1 || c.Index%4 == 0 {
		// contended deletes: every snapshot closed after each phase => exactly the live keys must remain
		o := CtdOpt{Mem: mem, KV: r.Intn(2) == 0, NWriters: pick(r, 2, 4, 8, 16), NKeys: pick(r, 1, 2, 4, 8),
			Phases: 8 + r.Intn(10), Mix: []string{"mixed", "pingpong", "alldelete"}[r.Intn(3)], Perturb: pick(r, 0, 1, 4), KeepSnaps: 0}
		o.OpsPerW = 30
		e := NewContend(c, o)
		e.Run()
		e.Report("C06")
		c.Sig("contend/mix=%s/w=%d/k=%d/mem=%s", o.Mix, o.NWriters, o.NKeys, mem)
		c.Evals(int64(e.Checkpoints))
		return
	}
	o := EngOpt{
		Mem: mem, KV: r.Intn(2) == 0,
		NWriters:     pick(r, 1, 2, 4, 8),
		NKeys:        pick(r, 8, 16, 64, 128),
		Phases:       4 + r.Intn(12),
		OpsPerWriter: 40 + r.Intn(160),
		Scanners:     pick(r, 0, 0, 2),
		Refresh:      []int{0, 3},
		CloseOrder:   []string{"random", "newest-first", "oldest-last", "keep-all", "keep-all"}[r.Intn(5)],
		MaxOpen:      1 + r.Intn(5),
		GCStorm:      r.Intn(2) == 0,
		Perturb:      pick(r, 0, 0, 1, 4),
		Checkpoints:  true,
		DeleteBias:   40 + r.Intn(20),
	}
	if o.CloseOrder == "keep-all" && o.Phases > 6 {
		o.Phases = 3 + r.Intn(4) // permutations of <= 6 snapshots
	}
	e := NewEngine(c, o)
	e.everyPhase = true
	e.Run()
	e.Report("C06")
	for k := range e.CloseOrders {
		c.Sig("order/%s/mem=%s", k, mem)
	}
	c.Evals(int64(e.Reconciled))
}

func init() {
	rt.Register(&rt.Prop{
		ID: "C06", Level: "exploration",
		Technique: "runtime monitoring: at deterministic quiescent checkpoints (explicit GC(), queues empty, every worker parked — decided from a goroutine profile, not from time) the collection frontier, physical node count, soft deletes and MemoryInUse are reconciled with a version-level reference model and a structure walk",
		Rule: "cases 0-5: deterministic rendezvous schedules — the loser of a contended cross-epoch delete is parked after its lookup / on entry of DeleteNode / before the dead-stamp CAS while the winner deletes that key and four more; afterwards exactly the live keys may remain. ownership engine: 1-8 writers over 8-128 keys, snapshot after every phase, checkpoint after every phase; close orders random / newest-first / oldest-last / keep-all-then-seeded-permutation, closes partly from concurrent goroutines, GC() storms; expected: GetLastGCSn = (oldest open sn)-1, physically present versions = live ∪ {dead versions with deadSn > lastGCSn} (the documented in-order collector), MemoryInUse = bytes of exactly those nodes once nothing is open. Every 12th case runs the accounting on an instance populated by LoadFromDisk (restored items deleted and replaced over 2-4 epochs, snapshots closed, GC() at quiescence: nodes = live keys, MemoryInUse = their bytes, ItemsCount = live keys). " +
			"contention engine: 2-16 writers deleting/re-inserting the same 1-8 keys, every snapshot closed after every phase: exactly the live keys may remain. evaluations = checkpoints reconciled; distinct = (close-order policy, number open, order class of the closes) / contention configurations",
		Assumptions: []string{"'pinned by open snapshots' is evaluated with the documented in-order collection rule: a version with deadSn=e stays while any snapshot with sn<=e is open", "quiescence is decided by the probe (channels empty through a verif accessor + every collection/free worker parked), wall-clock only as an inconclusive watchdog"},
		Cases: func(t string) int {
			if t == "thorough" {
				return 1500
			}
			return 72
		},
		Batch:   func(t string) int { return 6 },
		Procs:   12,
		MinSigs: 15,
		Run:     runC06,
	})
}
