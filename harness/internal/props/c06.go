package props

import (
	"nitroverif/internal/rt"
)

// C06 — garbage collection precise and complete.

func runC06(c *rt.C) {
	r := c.Rng
	mem := memModes()[c.Index%3]
	if c.Index%3 == 1 || c.Index%4 == 0 {
		// contended deletes: every snapshot closed after each phase => exactly the live keys must remain
		o := CtdOpt{Mem: mem, KV: r.Intn(2) == 0, NWriters: pick(r, 2, 4, 8, 16), NKeys: pick(r, 1, 2, 4, 8),
			Phases: 8 + r.Intn(10), Mix: []string{"mixed", "pingpong", "alldelete"}[r.Intn(3)], Perturb: pick(r, 0, 1, 4), KeepSnaps: 0}
		o.OpsPerW = 30
		e := NewContend(c, o)
		e.Run()
		e.Report("C06")
		c.Sig("contend/mix=%s/w=%d/k=%d/mem=%s", o.Mix, o.NWriters, o.NKeys, mem)
		c.Evals(int64(e.Checkpoints))
		return
	}
	o := EngOpt{
		Mem: mem, KV: r.Intn(2) == 0,
		NWriters:     pick(r, 1, 2, 4, 8),
		NKeys:        pick(r, 8, 16, 64, 128),
		Phases:       4 + r.Intn(12),
		OpsPerWriter: 40 + r.Intn(160),
		Scanners:     pick(r, 0, 0, 2),
		Refresh:      []int{0, 3},
		CloseOrder:   []string{"random", "newest-first", "oldest-last", "keep-all", "keep-all"}[r.Intn(5)],
		MaxOpen:      1 + r.Intn(5),
		GCStorm:      r.Intn(2) == 0,
		Perturb:      pick(r, 0, 0, 1, 4),
		Checkpoints:  true,
		DeleteBias:   40 + r.Intn(20),
	}
	if o.CloseOrder == "keep-all" && o.Phases > 6 {
		o.Phases = 3 + r.Intn(4) // permutations of <= 6 snapshots
	}
	e := NewEngine(c, o)
	e.everyPhase = true
	e.Run()
	e.Report("C06")
	for k := range e.CloseOrders {
		c.Sig("order/%s/mem=%s", k, mem)
	}
	c.Evals(int64(e.Reconciled))
}

func init() {
	rt.Register(&rt.Prop{
		ID: "C06", Level: "exploration",
		Technique: "runtime monitoring: at deterministic quiescent checkpoints (explicit GC(), queues empty, every worker parked — decided from a goroutine profile, not from time) the collection frontier, physical node count, soft deletes and MemoryInUse are reconciled with a version-level reference model and a structure walk",
		Rule: "ownership engine: 1-8 writers over 8-128 keys, snapshot after every phase, checkpoint after every phase; close orders random / newest-first / oldest-last / keep-all-then-seeded-permutation, closes partly from concurrent goroutines, GC() storms; expected: GetLastGCSn = (oldest open sn)-1, physically present versions = live ∪ {dead versions with deadSn > lastGCSn} (the documented in-order collector), MemoryInUse = bytes of exactly those nodes once nothing is open. " +
			"contention engine: 2-16 writers deleting/re-inserting the same 1-8 keys, every snapshot closed after every phase: exactly the live keys may remain. evaluations = checkpoints reconciled; distinct = (close-order policy, number open, order class of the closes) / contention configurations",
		Assumptions: []string{"'pinned by open snapshots' is evaluated with the documented in-order collection rule: a version with deadSn=e stays while any snapshot with sn<=e is open", "quiescence is decided by the probe (channels empty through a verif accessor + every collection/free worker parked), wall-clock only as an inconclusive watchdog"},
		Cases: func(t string) int {
			if t == "thorough" {
				return 1500
			}
			return 72
		},
		Batch:   func(t string) int { return 6 },
		Procs:   12,
		MinSigs: 15,
		Run:     runC06,
	})
}
