package props

import (
	"fmt"
	"math/rand"
	"path/filepath"
	"runtime"
	"sync"
	"sync/atomic"
	"time"
	"unsafe"

	"github.com/couchbase/nitro"
	"github.com/couchbase/nitro/skiplist"

	"nitroverif/internal/galloc"
	"nitroverif/internal/rt"
)

// C07 — every block released exactly once by Close (user-managed memory only).

func runC07(c *rt.C) {
	r := c.Rng
	mem := []string{"poison", "pageguard"}[c.Index%2]
	if c.Index%16 >= 14 {
		nodeListLifecycle(c, mem, (c.Index/16)%2 == 1)
		c.Evals(1)
		return
	}
	if c.Index%16 == 10 || c.Index%16 == 11 {
		c07FailedRestore(c, mem)
		return
	}
	if c.Index%16 == 13 {
		closeDuringCollection(c, []string{"poison", "pageguard"}[(c.Index/16)%2])
		c.Evals(1)
		return
	}
	if c.Index%16 >= 12 {
		closeDuringBackup(c, []string{"poison", "pageguard"}[(c.Index/16)%2])
		c.Evals(1)
		return
	}
	switch (c.Index / 2) % 4 {
	case 0:
		o := CtdOpt{Mem: mem, KV: r.Intn(2) == 0, NWriters: pick(r, 2, 4, 8), NKeys: pick(r, 1, 2, 4, 8),
			Phases: 4 + r.Intn(8), Mix: []string{"mixed", "pingpong", "allput", "alldelete"}[r.Intn(4)], Perturb: pick(r, 0, 1, 4), KeepSnaps: pick(r, 0, 2), OpsPerW: 30}
		e := NewContend(c, o)
		e.Run()
		e.Report("C07", "C04")
		c.Sig("contend/mix=%s/keep=%d/mem=%s", o.Mix, o.KeepSnaps, mem)
	case 1, 2:
		o := EngOpt{Mem: mem, KV: r.Intn(2) == 0, NWriters: pick(r, 1, 2, 4), NKeys: pick(r, 4, 16, 64), Phases: 3 + r.Intn(8),
			OpsPerWriter: 40 + r.Intn(120), Scanners: pick(r, 0, 2), Refresh: []int{0, 2}, CloseOrder: []string{"random", "newest-first", "oldest-last", "keep-all"}[r.Intn(4)],
			MaxOpen: 1 + r.Intn(4), GCStorm: r.Intn(2) == 0, Perturb: pick(r, 0, 1, 4), DeleteBias: 45, TrailingOps: (c.Index/2)%4 == 2}
		e := NewEngine(c, o)
		e.Run()
		e.Report("C07", "C04")
		c.Sig("engine/order=%s/trailing=%v/scanners=%d/mem=%s", o.CloseOrder, o.TrailingOps, o.Scanners, mem)
	default:
		c07Restore(c, mem)
	}
	c.Evals(1)
}

// c07Restore: populate, back up (optionally delta mode), restore into a fresh
// instance sharing the allocator, mutate the restored instance, close both.
func c07Restore(c *rt.C, mem string) {
	r := c.Rng
	delta := r.Intn(2) == 0
	kv := r.Intn(2) == 0
	db := OpenDB(DBOpt{Mem: mem, KV: kv, Delta: delta})
	nk := pick(r, 0, 1, 10, 100)
	nkk := nk
	if nkk == 0 {
		nkk = 1
	}
	ops := 0
	if nk > 0 {
		ops = nk + r.Intn(nk+1)
	}
	h := BuildHistory(r, db, HistOpt{NKeys: nkk, Epochs: 1 + r.Intn(4), OpsPerEpoch: ops, KeepProb: 0.3, Writers: 1 + r.Intn(2)})
	target := h.Snaps[len(h.Snaps)-1]
	for _, hs := range h.Snaps {
		if hs != target {
			hs.S.Close()
		}
	}
	h.Snaps = nil
	dir := filepath.Join(c.Tmp, "bk")
	// with delta interleaving a churn goroutine deletes items and cycles snapshots during the backup, so
	// that the collection workers write delta items (and some items end up in a data and a delta shard)
	stopChurn := make(chan struct{})
	var cwg sync.WaitGroup
	if delta && nk > 0 {
		cwg.Add(1)
		go func() {
			defer cwg.Done()
			defer func() { recover() }()
			cr := rand.New(rand.NewSource(c.Seed ^ 0xc07))
			for i := 0; i < 200; i++ {
				select {
				case <-stopChurn:
					return
				default:
				}
				h.Mutate(cr, 1+nkk/3, 70)
				s, _ := db.N.NewSnapshot()
				s.Close()
				db.N.GC()
			}
		}()
	}
	ncb := 0
	err := db.N.StoreToDisk(dir, target.S, pick(r, 1, 4), func(*nitro.ItemEntry) { // consumes the reference
		ncb++
		if delta && ncb%2 == 0 {
			runtime.Gosched()
			time.Sleep(100 * time.Microsecond)
		}
	})
	close(stopChurn)
	cwg.Wait()
	if err != nil {
		c.Inconclusive("StoreToDisk failed: " + err.Error())
		return
	}
	fresh := db.Fresh()
	// every second case the writer that will mutate the restored instance exists before the restore
	var early *nitro.Writer
	if r.Intn(2) == 0 {
		early = fresh.N.NewWriter()
	}
	res, stuck, inc := loadWithProbe(fresh, dir, pick(r, 1, 2, 8))
	if inc || stuck || res.pan != nil || res.err != nil {
		c.Inconclusive(fmt.Sprintf("restore did not succeed (stuck=%v panic=%v err=%v): outside this property's statement", stuck, res.pan, res.err))
		return
	}
	// mutate the restored instance
	h2 := &Hist{DB: fresh, Model: fresh.NewModel(), NKeys: nkk, Versions: map[int]int{}}
	for _, e := range target.Want {
		h2.Model.live[e.Key] = e.Item
	}
	h2.valctr = 1 << 20
	if early != nil {
		h2.Writers = append(h2.Writers, early)
	} else {
		h2.Writers = append(h2.Writers, fresh.N.NewWriter())
	}
	for e := 0; e < 2; e++ {
		h2.Mutate(r, 10+nk/2, 50)
		h2.Snapshot()
	}
	h2.CloseAll()
	res.snap.Close()
	fresh.N.Close()
	db.N.Close()
	a := db.A
	witness := map[string]interface{}{"mem": mem, "delta": delta, "kv": kv, "keys": nk, "items_stored": len(target.Want), "alloc": a.Stats(),
		"delta_items_restored": fresh.N.DeltaRestored, "delta_items_rejected_as_duplicates": fresh.N.DeltaRestoreFailed}
	c.Count("delta_items_rejected_as_duplicates", int64(fresh.N.DeltaRestoreFailed))
	c.Count("delta_items_restored", int64(fresh.N.DeltaRestored))
	reportAlloc(c, a, witness, "after closing the original and the restored instance")
	c.Sig("restore/delta=%v/n=%s/mem=%s/writer-before-load=%v", delta, sizeClass(len(target.Want)), mem, early != nil)
	c.Sample(witness)
	_ = nitro.DiskBlockSize
}

// c07FailedRestore: a history whose LoadFromDisk fails (or succeeds) on a damaged backup is a
// history too: the source instance is closed first, so the allocator's live set is empty; then
// for each of a sample of damaged copies of the backup (the fault classes of C11) a fresh
// instance loads it and is closed. After every such Close() the live set must be empty again
// and no block may have been released twice.
func c07FailedRestore(c *rt.C, mem string) {
	r := c.Rng
	delta := (c.Index/16)%2 == 0
	nk := pick(r, 3, 10, 40)
	dir := filepath.Join(c.Tmp, "bk")
	b := makeBackup(c, r, mem, delta, nk, dir)
	if b == nil {
		return
	}
	b.db.N.Close()
	a := b.db.A
	witness := map[string]interface{}{"mem": mem, "delta": delta, "keys": nk, "items_stored": len(b.want), "files": fileSummary(b)}
	reportAlloc(c, a, witness, "after closing the source instance of the backup")
	if c.Failed() {
		return
	}
	old := nitro.DiskBlockSize
	nitro.DiskBlockSize = 4096
	defer func() { nitro.DiskBlockSize = old }()
	faults, _ := b.singleFaults(r, 60)
	faults = append(faults, b.multiFaults(r, 2)...)
	// undamaged first: the successful restore is the control
	faults = append([]fault{{Op: "none", Class: "undamaged"}}, faults...)
	msb := b.lengthMSBOffsets()
	for _, f := range faults {
		if (f.Op == "flip" || f.Op == "set") && msb[f.File][f.Off] {
			continue // huge length headers: gigabyte allocations, covered (for termination) by C11
		}
		undo := b.apply(f)
		fresh := b.db.Fresh()
		res, stuck, inc := loadWithProbe(fresh, dir, pick(r, 1, 2, 8))
		undo()
		if inc || stuck || res.pan != nil {
			c.Inconclusive(fmt.Sprintf("restore of the damaged backup (%s) did not return (stuck=%v panic=%v): C11's subject", f, stuck, res.pan))
			return
		}
		outcome := "error"
		if res.err == nil {
			outcome = "loaded"
			res.snap.Close()
		}
		fresh.N.Close()
		c.Evals(1)
		c.Sig("failed-restore/%s/%s/%s/delta=%v/mem=%s", f.Class, f.Op, outcome, delta, mem)
		w := map[string]interface{}{"mem": mem, "delta": delta, "keys": nk, "fault": f.String(), "load_result": fmt.Sprint(res.err), "files": fileSummary(b)}
		a.CheckQuarantine()
		for _, v := range a.Violations() {
			c.Violate("alloc-"+v.Kind, fmt.Sprintf("restore of a damaged backup (%s; LoadFromDisk returned %v), then Close(): %s of block %s (%d bytes): %s alloc=[%s] free=[%s] second=[%s]", f, res.err, v.Kind, v.Addr, v.Size, v.Detail, v.Alloc, v.Free, v.Second), w)
		}
		if n := a.LiveCount(); n != 0 {
			c.Violate("leak-after-failed-restore", fmt.Sprintf("restore of a damaged backup (%s; LoadFromDisk returned %v), then Close(): %d blocks were never returned to the allocator; first: %+v", f, res.err, n, a.Leaks(3)), w)
		}
		if c.Failed() {
			return
		}
	}
	c.Sample(witness)
}

// nodeListLifecycle: nodes returned by Put2 are chained in the library's own NodeList (which uses
// the node's link field); one of them is taken off the list and deleted — in the epoch it was
// inserted in (the delete flushes that single node to the free workers) or, crossEpoch, one epoch
// later (the node joins the writer's garbage list, is handed to the next snapshot and collected
// once the older snapshots are closed while a newer one stays open). Nothing but that node and
// its item may be unlinked or released: the newer snapshot must still show every other key, and
// Close() must release everything exactly once (user-managed memory).
func nodeListLifecycle(c *rt.C, mem string, crossEpoch bool) {
	r := c.Rng
	db := OpenDB(DBOpt{Mem: mem})
	w := db.N.NewWriter()
	n := 3 + r.Intn(6)
	nl := nitro.NewNodeList(nil)
	var nodes []*skiplist.Node
	for i := 0; i < n; i++ {
		nd := w.Put2(KeyBytes(i))
		nodes = append(nodes, nd)
		nl.Add(nd)
	}
	var s1 *nitro.Snapshot
	if crossEpoch {
		s1, _ = db.N.NewSnapshot()
	}
	// remove one node (head, middle or tail of the list) and delete it
	victim := r.Intn(n)
	key := KeyBytes(victim)
	got := nl.Remove(key)
	witness := map[string]interface{}{"mem": mem, "nodes": n, "victim": victim, "list_position": posClass(n-1-victim, n), "delete_one_epoch_after_insert": crossEpoch}
	if got != nodes[victim] {
		c.Violate("nodelist-remove", "NodeList.Remove did not return the node that was added for the key", witness)
		return
	}
	if !w.DeleteNode(got) {
		c.Violate("deletenode-result", "DeleteNode of a live node returned false", witness)
		return
	}
	var s3 *nitro.Snapshot
	if crossEpoch {
		s2, _ := db.N.NewSnapshot() // owns the garbage list with the victim
		s3, _ = db.N.NewSnapshot()  // newer, stays open
		s1.Close()
		s2.Close() // collected in order: the victim is unlinked and released
		db.N.GC()
	}
	if !Quiesce(db.N) {
		c.Inconclusive("quiescence probe did not settle")
		return
	}
	// the other nodes are still live items of the database: their blocks must be live
	if db.A != nil {
		for i, nd := range nodes {
			if i == victim {
				continue
			}
			if !db.A.IsLive(unsafe.Pointer(nd)) || !db.A.IsLive(nd.Item()) {
				c.Violate("freed-while-linked", fmt.Sprintf("after the DeleteNode of one list member (and its collection), the node or item of another, still live key (k%d) has been released", i), witness)
				return
			}
		}
	}
	keys := nl.Keys()
	if len(keys) != n-1 {
		c.Violate("nodelist-keys", fmt.Sprintf("NodeList has %d keys after removing one of %d", len(keys), n), witness)
	}
	if s3 != nil {
		sc, _ := Scan(s3, 0)
		if len(sc) != n-1 || int(s3.Count()) != n-1 {
			c.Violate("snapshot-content", fmt.Sprintf("open snapshot taken after the delete of one of %d keys: after the older snapshots were closed and collected its scan returns %d items and Count()=%d, want %d (collection of the deleted node's garbage list removed live items)", n, len(sc), s3.Count(), n-1), witness)
		}
		s3.Close()
	}
	s, _ := db.N.NewSnapshot()
	if sc, _ := Scan(s, 0); len(sc) != n-1 {
		c.Violate("content", fmt.Sprintf("snapshot has %d items, want %d", len(sc), n-1), witness)
	}
	s.Close()
	db.N.Close()
	if db.A != nil {
		reportAlloc(c, db.A, witness, "after Close (NodeList lifecycle)")
	}
	c.Sig("nodelist/n=%d/pos=%s/mem=%s/cross-epoch=%v", min(n, 5), posClass(n-1-victim, n), mem, crossEpoch)
	c.Sample(witness)
}

// closeDuringBackup: Close() is called while a backup is scanning (the supported shutdown
// path: StoreToDisk notices the shutdown, aborts and releases its snapshot reference, Close
// then proceeds). Whatever StoreToDisk returns, after both have returned every block must have
// been released exactly once.
func closeDuringBackup(c *rt.C, mem string) {
	r := c.Rng
	delta := r.Intn(2) == 0
	db := OpenDB(DBOpt{Mem: mem, Delta: delta, KV: r.Intn(2) == 0})
	nk := pick(r, 50, 400, 1500)
	h := BuildHistory(r, db, HistOpt{NKeys: nk, Epochs: 1 + r.Intn(3), OpsPerEpoch: nk + r.Intn(nk), KeepProb: 0, Writers: 2, DeleteBias: 25})
	target := h.Snaps[len(h.Snaps)-1]
	h.Snaps = nil
	after := 1 + r.Intn(len(target.Want)+1)
	reached := make(chan struct{})
	var once sync.Once
	n := 0
	errc := make(chan error, 1)
	go func() {
		errc <- db.N.StoreToDisk(filepath.Join(c.Tmp, "bk"), target.S, pick(r, 1, 4), func(*nitro.ItemEntry) {
			n++
			if n >= after {
				once.Do(func() { close(reached) })
				runtime.Gosched()
			}
		})
	}()
	// wait until the scan is under way (or the backup finished early), then shut down
	var serr error
	finished := false
	select {
	case <-reached:
	case serr = <-errc:
		finished = true
	}
	db.N.Close()
	if !finished {
		serr = <-errc
	}
	witness := map[string]interface{}{"mem": mem, "delta": delta, "items": len(target.Want), "close_after_items": after, "store_result": fmt.Sprint(serr), "alloc": db.A.Stats()}
	reportAlloc(c, db.A, witness, "after Close() raced a running StoreToDisk")
	c.Sig("close-during-backup/delta=%v/result=%v/mem=%s", delta, serr == nil, mem)
	c.Sample(witness)
}

// closeDuringCollection: every snapshot has been closed; Close() is called while a collection worker is
// half-way through the dead list of a retired snapshot (parked before unlinking its k-th node, resumed
// once Close() has announced the shutdown and holds the collector flag). Nodes the worker has already
// unlinked are no longer reachable by Close's sweep, nodes it has not reached still are: every block
// must come back exactly once either way.
func closeDuringCollection(c *rt.C, mem string) {
	r := c.Rng
	db := OpenDB(DBOpt{Mem: mem, KV: r.Intn(2) == 0})
	nw := 1 + r.Intn(2)
	ws := make([]*nitro.Writer, nw)
	for i := range ws {
		ws[i] = db.N.NewWriter()
	}
	nk := pick(r, 12, 50, 200)
	for i := 0; i < nk; i++ {
		ws[i%nw].Put(db.Item(i, "v0"))
	}
	snap1, _ := db.N.NewSnapshot()
	dead := 0
	for i := 0; i < nk; i++ {
		if r.Intn(3) > 0 && ws[i%nw].Delete(db.Item(i, "v0")) { // cross-epoch: goes to the next snapshot's dead list
			dead++
			if r.Intn(4) == 0 {
				ws[i%nw].Put(db.Item(i, "v1"))
			}
		}
	}
	snap2, _ := db.N.NewSnapshot()
	if dead == 0 {
		c.Inconclusive("no cross-epoch delete")
		return
	}
	parkAt := int32(1 + r.Intn(dead))
	var arrivals int32
	parked, resume := make(chan struct{}), make(chan struct{})
	nitro.VerifSetHook(func(id int, arg unsafe.Pointer) {
		if id == nitro.VpWorkerBeforeUnlink && atomic.AddInt32(&arrivals, 1) == parkAt {
			close(parked)
			<-resume
		}
	})
	defer nitro.VerifSetHook(nil)
	snap1.Close()
	snap2.Close() // retires snap2: its dead list goes to a collection worker
	reached := false
	select {
	case <-parked:
		reached = true
	case <-time.After(20 * time.Second):
	}
	closed := make(chan struct{})
	go func() {
		db.N.Close()
		close(closed)
	}()
	closeStarted := false
	if reached {
		for i := 0; i < 20000 && !closeStarted; i++ {
			closeStarted = db.N.VerifIsGCRunning()
			if !closeStarted {
				time.Sleep(time.Millisecond)
			}
		}
		time.Sleep(5 * time.Millisecond)
	}
	close(resume)
	select {
	case <-closed:
	case <-time.After(60 * time.Second):
		c.Inconclusive("Close() did not return while a collection worker was parked in the middle of a dead list and then resumed")
		return
	}
	nitro.VerifSetHook(nil)
	witness := map[string]interface{}{"mem": mem, "keys": nk, "writers": nw, "dead_list_length": dead, "worker_parked_before_unlink_no": parkAt, "worker_parked": reached, "close_started_before_resume": closeStarted, "alloc": db.A.Stats()}
	if !reached || !closeStarted {
		c.Inconclusive("the collection worker was not caught in the middle of the dead list")
	}
	reportAlloc(c, db.A, witness, "after Close() overtook a collection worker in the middle of a dead list")
	c.Sig("close-during-collection/mem=%s/pos=%s/writers=%d", mem, posClass(int(parkAt)-1, dead), nw)
	c.Sample(witness)
}

func reportAlloc(c *rt.C, a *galloc.Alloc, witness interface{}, where string) {
	a.CheckQuarantine()
	for _, v := range a.Violations() {
		c.Violate("alloc-"+v.Kind, fmt.Sprintf("%s of block %s (%d bytes): %s alloc=[%s] free=[%s] second=[%s]", v.Kind, v.Addr, v.Size, v.Detail, v.Alloc, v.Free, v.Second), witness)
	}
	if n := a.LiveCount(); n != 0 {
		c.Violate("leak", fmt.Sprintf("%d blocks still allocated %s; first: %+v", n, where, a.Leaks(3)), witness)
	}
	st := a.Stats()
	c.Count("blocks_allocated", st.Allocs)
	c.Count("blocks_freed", st.Frees)
}

func init() {
	rt.Register(&rt.Prop{
		ID: "C07", Level: "exploration",
		Technique: "runtime monitoring: exact per-block shadow live-set of the allocator passed through Config.UseMemoryMgmt (leak = live set non-empty after Close; double / invalid free recorded when it happens)",
		Rule: "user-managed memory, alternating poison / pageguard. Lifecycles rotate over: contention engine (rejected Puts, same-epoch and cross-epoch deletes by several writers), ownership engine with random/newest-first/oldest-last/permuted close orders, GC() storms and scanners, the same with a trailing write phase and Close() while garbage is pending in the writers' lists, backup (delta on/off) → LoadFromDisk into a fresh instance on the same allocator (every second time with a writer created before the restore) → further mutation → Close of both, nodes chained in the library's NodeList with one of them removed and deleted in its own epoch, Close() called while a backup is scanning (the supported shutdown path), and Close() called, after every snapshot was closed, while a collection worker is parked in the middle of a retired snapshot's dead list (resumed once Close holds the collector flag). After Close() the live set must be empty and no double/invalid free may have been recorded. " +
			"evaluations = lifecycles; distinct = lifecycle configuration tuples",
		Assumptions: []string{"every snapshot/iterator handle is closed exactly once before Close()", "failed loads are outside the statement and not judged"},
		Cases: func(t string) int {
			if t == "thorough" {
				return 1600
			}
			return 96
		},
		Batch:   func(t string) int { return 6 },
		Procs:   16,
		MinSigs: 15,
		Run:     runC07,
	})
}
