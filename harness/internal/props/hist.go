package props

import (
	"fmt"
	"math/rand"
	"sort"

	"github.com/couchbase/nitro"
)

// HSnap is an open snapshot with the reference content frozen at its creation.
type HSnap struct {
	S    *nitro.Snapshot
	Want []Entry
	Sn   uint32
}

// Hist is a database with a multi-version history and some open snapshots.
type Hist struct {
	DB      *DB
	Snaps   []*HSnap
	Model   *Model
	Writers []*nitro.Writer
	NKeys   int
	Epochs  int
	valctr  int
	// per key: number of physical versions that may still be present (upper bound, for signatures)
	Versions map[int]int
}

type HistOpt struct {
	NKeys       int
	Epochs      int
	OpsPerEpoch int
	KeepProb    float64 // probability that a snapshot stays open
	Writers     int
	DeleteBias  int // percent of deletes among ops
}

// BuildHistory runs a sequential random history (single goroutine) creating a
// snapshot after each epoch; snapshots are kept open with KeepProb, so older
// and newer versions of keys stay physically present under the kept ones.
func BuildHistory(r *rand.Rand, db *DB, o HistOpt) *Hist {
	h := &Hist{DB: db, Model: db.NewModel(), NKeys: o.NKeys, Versions: map[int]int{}}
	if o.Writers <= 0 {
		o.Writers = 1
	}
	for i := 0; i < o.Writers; i++ {
		h.Writers = append(h.Writers, db.N.NewWriter())
	}
	if o.DeleteBias == 0 {
		o.DeleteBias = 45
	}
	for e := 0; e < o.Epochs; e++ {
		h.Mutate(r, o.OpsPerEpoch, o.DeleteBias)
		s, err := db.N.NewSnapshot()
		if err != nil {
			panic(err)
		}
		hs := &HSnap{S: s, Want: h.Model.Snapshot(), Sn: s.VerifSn()}
		if r.Float64() < o.KeepProb || e == o.Epochs-1 {
			h.Snaps = append(h.Snaps, hs)
		} else {
			s.Close()
		}
		h.Epochs++
	}
	return h
}

// Mutate applies n random Put/Delete operations, keeping the model in step.
func (h *Hist) Mutate(r *rand.Rand, n int, deleteBias int) {
	for i := 0; i < n; i++ {
		w := h.Writers[r.Intn(len(h.Writers))]
		kid := r.Intn(h.NKeys)
		kb := string(KeyBytes(kid))
		if r.Intn(100) < deleteBias {
			ok := w.Delete(h.DB.Item(kid, "x"))
			if ok != h.Model.Has(kb) {
				panic(fmt.Sprintf("history builder: Delete(%q)=%v model=%v", kb, ok, h.Model.Has(kb)))
			}
			h.Model.Delete(kb)
		} else {
			h.valctr++
			item := h.DB.Item(kid, fmt.Sprintf("v%d", h.valctr))
			n := w.Put2(item)
			if (n != nil) == h.Model.Has(kb) {
				panic(fmt.Sprintf("history builder: Put(%q)=%v model has=%v", kb, n != nil, h.Model.Has(kb)))
			}
			if n != nil {
				h.Model.Put(kb, item)
				h.Versions[kid]++
			}
		}
	}
}

// Snapshot takes a new snapshot and returns it with its reference content.
func (h *Hist) Snapshot() *HSnap {
	s, err := h.DB.N.NewSnapshot()
	if err != nil {
		panic(err)
	}
	hs := &HSnap{S: s, Want: h.Model.Snapshot(), Sn: s.VerifSn()}
	h.Snaps = append(h.Snaps, hs)
	return hs
}

// CloseAll closes every snapshot still open.
func (h *Hist) CloseAll() {
	for _, s := range h.Snaps {
		s.S.Close()
	}
	h.Snaps = nil
}

// PhysicalVersions walks level 0 of the store and returns, per key, the number
// of physical versions present (for signatures / evidence).
func (h *Hist) PhysicalVersions() (maxPerKey int, total int) {
	st := h.DB.N.VerifStore()
	per := map[string]int{}
	n, _ := st.HeadNode().VerifNext(0)
	for n != st.TailNode() && n != nil {
		_, _, data := nitro.VerifItemMeta(n.Item())
		per[h.DB.KeyOf(data)]++
		total++
		n, _ = n.VerifNext(0)
	}
	for _, c := range per {
		if c > maxPerKey {
			maxPerKey = c
		}
	}
	return
}

// seekTargets returns interesting seek keys for the key-id space: every key id
// (present or gap), below the minimum and above the maximum.
func (h *Hist) seekTargets() [][]byte {
	var out [][]byte
	mk := func(k []byte) []byte {
		if h.DB.KV {
			return nitro.KVToBytes(k, nil)
		}
		return k
	}
	out = append(out, mk([]byte("a")), mk([]byte("z")), mk([]byte("k")))
	for i := 0; i < h.NKeys+1; i++ {
		out = append(out, mk(KeyBytes(i)))
		out = append(out, mk([]byte(fmt.Sprintf("k%05d", i)))) // prefix of some keys: sorts before them
		out = append(out, mk(append(KeyBytes(i), 0xff, 0xff, 0xff, 0xff)))
	}
	return out
}

func (h *Hist) keyOfSeek(b []byte) string {
	return h.DB.KeyOf(b)
}

// lowerBound returns the index of the first entry with key >= k.
func lowerBound(db *DB, want []Entry, k string) int {
	return sort.Search(len(want), func(i int) bool { return !db.KeyLess(want[i].Key, k) })
}
