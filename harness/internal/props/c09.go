package props

import (
	"bytes"
	"fmt"
	"math/rand"
	"runtime"
	"sync"
	"sync/atomic"
	"time"
	"unsafe"

	"github.com/couchbase/nitro/skiplist"

	"nitroverif/internal/rt"
)

// C09 — iterator positioning vs a cursor over the frozen reference copy.

func runC09(c *rt.C) {
	r := c.Rng
	mem := memModes()[c.Index%3]
	kv := (c.Index/3)%3 == 1
	rev := (c.Index/3)%3 == 2
	nKeys := pick(r, 3, 5, 8, 12, 20, 40)
	db := OpenDB(DBOpt{Mem: mem, KV: kv, Rev: rev})
	h := BuildHistory(r, db, HistOpt{NKeys: nKeys, Epochs: 3 + r.Intn(6), OpsPerEpoch: nKeys + r.Intn(2*nKeys), KeepProb: 0.6, Writers: 1 + r.Intn(2)})
	maxv, total := h.PhysicalVersions()
	targets := h.seekTargets()
	exhaustive := c.Index%4 == 0 // exhaustive "Refresh at every position x rate" for small snapshots
	nOps := 300
	// every 4th case: a churn goroutine keeps inserting and (same-epoch) deleting newer versions of the
	// keys while the cursor programs run, so invisible versions appear and are physically unlinked
	// under the iterators; the oracle (frozen copy of each open snapshot) is unchanged
	churn := c.Index%4 == 2
	var stopChurn int32
	var churnWG sync.WaitGroup
	if churn {
		// widen the window between a delete's mark and its unlink pass (and before the mark), so
		// the cursors meet marked-but-still-linked invisible nodes, not only fully unlinked ones
		var hits uint64
		skiplist.VerifSetHook(func(id int, arg unsafe.Pointer) {
			if id == skiplist.VpDelMarked || id == skiplist.VpDelBeforeMark {
				if n := atomic.AddUint64(&hits, 1); n%3 != 0 {
					time.Sleep(time.Duration(20+n%7*30) * time.Microsecond)
				}
			}
		})
		defer skiplist.VerifSetHook(nil)
		churnWG.Add(1)
		go func() {
			defer churnWG.Done()
			cr := rand.New(rand.NewSource(c.Seed ^ 0x5eed))
			w := h.Writers[0]
			for n := 0; atomic.LoadInt32(&stopChurn) == 0 && n < 200000; n++ {
				kid := cr.Intn(nKeys)
				if cr.Intn(2) == 0 {
					w.Delete(db.Item(kid, "x"))
				} else {
					w.Put2(db.Item(kid, fmt.Sprintf("c%d", n)))
				}
				if n%8 == 0 {
					runtime.Gosched()
				}
			}
		}()
	}
	defer func() {
		atomic.StoreInt32(&stopChurn, 1)
		churnWG.Wait()
	}()
	for si, hs := range h.Snaps {
		if c.Failed() {
			break
		}
		if exhaustive && len(hs.Want) <= 12 {
			for _, rate := range []int{0, 1, 2, 3} {
				for pos := -1; pos <= len(hs.Want); pos++ {
					// scan from first, explicit Refresh when reaching position pos
					it := hs.S.NewIterator()
					it.SetRefreshRate(rate)
					it.SeekFirst()
					idx := 0
					for ; ; idx++ {
						if idx == pos {
							it.Refresh()
						}
						v := it.Valid()
						if v != (idx < len(hs.Want)) {
							c.Violate("valid-mismatch", fmt.Sprintf("snapshot sn=%d rate=%d refresh@%d: Valid()=%v at index %d of %d", hs.Sn, rate, pos, v, idx, len(hs.Want)),
								map[string]interface{}{"mem": mem, "kv": kv, "want": entriesToStrings(hs.Want, 30)})
							break
						}
						if !v {
							break
						}
						if g := it.Get(); !bytes.Equal(g, hs.Want[idx].Item) {
							c.Violate("get-mismatch", fmt.Sprintf("snapshot sn=%d rate=%d refresh@%d: index %d got %s want %s", hs.Sn, rate, pos, idx, fmtItem(g), fmtItem(hs.Want[idx].Item)),
								map[string]interface{}{"mem": mem, "kv": kv, "want": entriesToStrings(hs.Want, 30)})
							break
						}
						it.Next()
						if idx > len(hs.Want)+5 {
							break
						}
					}
					it.Close()
					c.Evals(1)
					c.Sig("exh/rate=%d/pos=%s/n=%d/maxv=%d", rate, posClass(pos, len(hs.Want)), min(len(hs.Want), 4), min(maxv, 4))
					if c.Failed() {
						break
					}
				}
			}
			continue
		}
		it := hs.S.NewIterator()
		if it == nil {
			c.Violate("iterator-nil", "NewIterator returned nil on an open snapshot", nil)
			break
		}
		idx := -1 // model cursor; -1 = unpositioned
		var trace []string
		rate := 0
		bad := func(kind, f string, a ...interface{}) {
			t := trace
			if len(t) > 40 {
				t = t[len(t)-40:]
			}
			c.Violate(kind, fmt.Sprintf("snapshot sn=%d (#%d of %d open, %d items, up to %d versions/key, %d physical nodes): ", hs.Sn, si, len(h.Snaps), len(hs.Want), maxv, total)+fmt.Sprintf(f, a...),
				map[string]interface{}{"mem": mem, "kv": kv, "ops": t, "want": entriesToStrings(hs.Want, 40)})
		}
		for op := 0; op < nOps && !c.Failed(); op++ {
			x := r.Intn(100)
			switch {
			case idx < 0 || x < 6:
				it.SeekFirst()
				idx = 0
				trace = append(trace, "SeekFirst")
				c.Sig("seekfirst/maxv=%d", min(maxv, 4))
			case x < 30:
				t := targets[r.Intn(len(targets))]
				it.Seek(t)
				k := h.keyOfSeek(t)
				idx = lowerBound(db, hs.Want, k)
				trace = append(trace, fmt.Sprintf("Seek(%q)", k))
				cls := "gap"
				if idx < len(hs.Want) && hs.Want[idx].Key == k {
					cls = "hit"
				} else if idx == 0 {
					cls = "below-min"
				} else if idx == len(hs.Want) {
					cls = "above-max"
				}
				c.Sig("seek/%s/maxv=%d", cls, min(maxv, 4))
			case x < 40:
				it.Refresh()
				trace = append(trace, "Refresh")
				c.Sig("refresh/valid=%v/rate=%d/maxv=%d/churn=%v", idx < len(hs.Want), min(rate, 4), min(maxv, 4), churn)
			case x < 46:
				rate = pick(r, 0, 1, 2, 3, 5, 64)
				it.SetRefreshRate(rate)
				trace = append(trace, fmt.Sprintf("SetRefreshRate(%d)", rate))
			default:
				if idx < len(hs.Want) {
					it.Next()
					idx++
					trace = append(trace, "Next")
					c.Sig("next/rate=%d/maxv=%d/churn=%v", min(rate, 4), min(maxv, 4), churn)
				} else {
					idx = -1
					continue
				}
			}
			v := it.Valid()
			if v != (idx < len(hs.Want)) {
				bad("valid-mismatch", "Valid()=%v but the reference cursor is at %d of %d", v, idx, len(hs.Want))
				break
			}
			if v {
				if g := it.Get(); !bytes.Equal(g, hs.Want[idx].Item) {
					bad("get-mismatch", "Get()=%s but the reference cursor is at %s (index %d)", fmtItem(g), fmtItem(hs.Want[idx].Item), idx)
					break
				}
			}
			c.Evals(1)
		}
		it.Close()
		if si == 0 {
			c.Sample(map[string]interface{}{"mem": mem, "kv": kv, "keys": nKeys, "open_snapshots": len(h.Snaps), "items": len(hs.Want),
				"max_versions_per_key": maxv, "physical_nodes": total, "first_ops": firstN(trace, 25)})
		}
	}
	c.Count("snapshots", int64(len(h.Snaps)))
	atomic.StoreInt32(&stopChurn, 1)
	churnWG.Wait()
	if !c.Failed() {
		h.CloseAll()
		db.N.Close()
	}
}

func entriesToStrings(es []Entry, max int) []string {
	var out []string
	for i, e := range es {
		if i >= max {
			out = append(out, "…")
			break
		}
		out = append(out, fmtItem(e.Item))
	}
	return out
}

func init() {
	rt.Register(&rt.Prop{
		ID: "C09", Level: "exploration",
		Technique: "runtime monitoring: reference cursor over the frozen model copy compared after every iterator call",
		Rule: "each case builds a seeded multi-version history (3-40 keys, 3-8 epochs, ~60% of snapshots kept open so invisible older/newer versions stay physically present) and drives, on every open snapshot, random sequences of SeekFirst/Seek(present|gap|below-min|above-max)/Next/Refresh/SetRefreshRate{0,1,2,3,5,64}; every 4th case enumerates 'explicit Refresh at each position x refresh rate {0,1,2,3}' for all snapshots of <=12 items; every other 4th case runs the cursor programs while a churn goroutine inserts and same-epoch-deletes newer versions of the keys. " +
			"evaluations = iterator calls (or enumerated scans) checked; distinct = (operation, seek class or position class, refresh rate, max physical versions per key) tuples",
		Assumptions: []string{"history is built by one goroutine; in every 4th case one churn goroutine (owning its writer) mutates the database while the cursor programs run on the already created snapshots", "Next is not called on an invalid iterator"},
		Cases: func(t string) int {
			if t == "thorough" {
				return 6000
			}
			return 200
		},
		Batch:   func(t string) int { return 25 },
		Procs:   8,
		MinSigs: 20,
		Run:     runC09,
	})
}
