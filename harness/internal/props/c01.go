package props

import (
	"fmt"
	"path/filepath"

	"github.com/couchbase/nitro"

	"nitroverif/internal/rt"
)

// C01 — snapshot isolation, on the concurrent history engine.

func c01Opts(c *rt.C) EngOpt {
	r := c.Rng
	o := EngOpt{
		Mem:          memModes()[c.Index%3],
		KV:           (c.Index/3)%3 == 1,
		Rev:          (c.Index/3)%3 == 2,
		NWriters:     pick(r, 2, 3, 4, 8),
		NKeys:        pick(r, 16, 32, 64, 128, 512),
		Phases:       10 + r.Intn(16),
		OpsPerWriter: 100 + r.Intn(300),
		Scanners:     1 + r.Intn(6),
		Refresh:      []int{0, 1, 3, 64},
		Visitors:     true,
		CloseOrder:   []string{"random", "random", "newest-first", "oldest-last"}[r.Intn(4)],
		MaxOpen:      2 + r.Intn(6),
		GCStorm:      r.Intn(3) == 0,
		Perturb:      pick(r, 0, 0, 1, 4),
		Checkpoints:  r.Intn(2) == 0,
		DeleteBias:   35 + r.Intn(20),
	}
	if c.Tier == "thorough" && c.Index%10 == 9 {
		o.NWriters, o.NKeys = 8, 512
	}
	if o.Mem == "pageguard" {
		// two syscalls per block: keep these cases small (memory safety proper is C04's job)
		if o.NKeys > 64 {
			o.NKeys = 64
		}
		o.OpsPerWriter = 30 + r.Intn(60)
		if o.Phases > 12 {
			o.Phases = 12
		}
		if o.Scanners > 3 {
			o.Scanners = 3
		}
	}
	return o
}

// c01BackupWhileRead: a snapshot that a reader still references is backed up (StoreToDisk
// consumes the reference it is given, with delta interleaving it does so early and scans
// through a placeholder); afterwards most keys are deleted, newer snapshots come and go and
// the collector runs. The reader's snapshot must still show exactly its frozen content.
func c01BackupWhileRead(c *rt.C) {
	r := c.Rng
	mem := memModes()[c.Index%3]
	delta := (c.Index/16)%2 == 0
	kv := r.Intn(2) == 0
	db := OpenDB(DBOpt{Mem: mem, KV: kv, Delta: delta})
	nk := pick(r, 5, 20, 80)
	h := BuildHistory(r, db, HistOpt{NKeys: nk, Epochs: 2 + r.Intn(3), OpsPerEpoch: nk + r.Intn(nk), KeepProb: 0.3, Writers: 2})
	t := h.Snaps[len(h.Snaps)-1]
	witness := map[string]interface{}{"mem": mem, "kv": kv, "delta": delta, "keys": nk, "items": len(t.Want), "open_snapshots": len(h.Snaps)}
	if !t.S.Open() { // the reader's own reference
		c.Violate("open-refused", "Open() refused on an open snapshot", witness)
		return
	}
	var early *nitro.Iterator
	if r.Intn(2) == 0 {
		early = t.S.NewIterator() // an iterator that exists before the backup starts
	}
	failingVisit := (c.Index/16)%3 != 1 && len(t.Want) > 0
	if failingVisit {
		// a Visitor pass whose callback fails in every shard must leave the snapshot's references alone
		verr := db.N.Visitor(t.S, func(*nitro.Item, int) error { return fmt.Errorf("injected callback failure") }, pick(r, 1, 4, 16), pick(r, 1, 2, 8))
		if verr == nil {
			c.Count("other_property_oracle_fired", 1) // C10's subject
		}
	}
	witness["failing_visitor_first"] = failingVisit
	if err := db.N.StoreToDisk(filepath.Join(c.Tmp, "bk"), t.S, pick(r, 1, 2, 8), nil); err != nil {
		c.Inconclusive("StoreToDisk failed: " + err.Error())
		return
	}
	for e := 0; e < 3; e++ {
		h.Mutate(r, 2*nk, 80)
		hs := h.Snapshot()
		hs.S.Close()
		h.Snaps = h.Snaps[:len(h.Snaps)-1]
		db.N.GC()
	}
	Quiesce(db.N)
	for _, hs := range h.Snaps {
		for _, rate := range []int{0, 3} {
			got, ok := Scan(hs.S, rate)
			c.Evals(1)
			if !ok {
				c.Violate("snapshot-content", fmt.Sprintf("snapshot sn=%d cannot be iterated although a reader still holds a reference (a backup of it consumed one reference)", hs.Sn), witness)
				return
			}
			if d := DiffScan(got, hs.Want); d != "" {
				c.Violate("snapshot-content", fmt.Sprintf("after a backup of snapshot sn=%d (which a reader still references), deletes, newer snapshots and collection: scan of snapshot sn=%d differs from the content frozen at its creation: %s", t.Sn, hs.Sn, d), witness)
				return
			}
		}
		if n := hs.S.Count(); int(n) != len(hs.Want) {
			c.Violate("snapshot-count", fmt.Sprintf("snapshot sn=%d Count()=%d, reference has %d items", hs.Sn, n, len(hs.Want)), witness)
			return
		}
	}
	c.Sig("backup-while-read/delta=%v/mem=%s/iter-before=%v/failing-visitor-first=%v/n=%s", delta, mem, early != nil, failingVisit, sizeClass(len(t.Want)))
	if early != nil {
		early.Close()
	}
	h.CloseAll()
	db.N.Close()
	c.Sample(witness)
}

func runC01(c *rt.C) {
	if c.Index%8 == 3 {
		if c.Index%16 == 11 {
			// nodes chained through the library's NodeList, one deleted an epoch later: collecting
			// it must not touch what a newer open snapshot still shows
			nodeListLifecycle(c, memModes()[(c.Index/16)%3], true)
			c.Evals(1)
			return
		}
		c01BackupWhileRead(c)
		return
	}
	if c.Index%8 == 7 {
		// contended writers: the snapshot taken after quiescence must be self-consistent (Count = scan)
		r := c.Rng
		o := CtdOpt{Mem: memModes()[c.Index%3], KV: r.Intn(2) == 0, NWriters: pick(r, 2, 4, 8), NKeys: pick(r, 1, 2, 4, 8), Phases: 6 + r.Intn(6),
			Mix: []string{"mixed", "pingpong", "alldelete"}[r.Intn(3)], Perturb: pick(r, 0, 1, 4), KeepSnaps: pick(r, 0, 2), OpsPerW: 30}
		ce := NewContend(c, o)
		ce.Run()
		ce.Report("C01")
		c.Sig("contend/mix=%s/w=%d/mem=%s", o.Mix, o.NWriters, o.Mem)
		c.Evals(int64(ce.Histories))
		return
	}
	e := NewEngine(c, c01Opts(c))
	e.Run()
	e.Report("C01")
	for s := range e.AgeSigs {
		c.Sig("%s/order=%s/mem=%s", s, e.o.CloseOrder, e.o.Mem)
	}
	c.Evals(e.scans + e.visits)
}

func init() {
	rt.Register(&rt.Prop{
		ID: "C01", Level: "exploration",
		Technique: "runtime monitoring: every scan / Visitor pass / Count of every open snapshot compared with the model copy frozen at its creation, while writers, snapshot churn, GC and other readers run; guard allocators in user-managed mode",
		Rule: "each case = one seeded concurrent history: 10-25 phases of 2-8 writers (one owner per key per phase, ownership rotating so versions are created by one writer and deleted by another) over 16-512 keys with 35-55% deletes, NewSnapshot after every phase, 1-6 scanner goroutines continuously scanning random open snapshots (iterator refresh rate ∈ {0,1,3,64}, every 4th pass a concurrent Visitor) while later phases run, snapshots closed in random / newest-first / oldest-last order (partly from concurrent goroutines), optional GC() storms and hook-point perturbation; memory mode and comparator rotate with the case index. Every 8th case: contended writers, Count() of the post-quiescence snapshot = scan. Every other 8th case: a snapshot that a reader still references is backed up (delta interleaving on/off), then most keys are deleted, newer snapshots come and go and the collector runs; every open snapshot must still scan to its frozen content. " +
			"evaluations = scans and visitor passes compared; distinct = (scan or visit, snapshot age in epochs, refresh rate, close-order policy, memory mode) tuples observed",
		Assumptions: []string{"NewSnapshot is called only while no writer call is in flight (documented API contract)", "one goroutine per Writer", "each key has one owning writer per phase so that the reference set is exact (contended keys are C03's workload)"},
		Cases: func(t string) int {
			if t == "thorough" {
				return 900
			}
			return 48
		},
		Batch:   func(t string) int { return 4 },
		Procs:   12,
		MinSigs: 20,
		Run:     runC01,
	})
}
