package props

import (
	"fmt"
	"math/rand"
	"sort"
	"sync"
	"time"
	"unsafe"

	"github.com/anishathalye/porcupine"
	"github.com/couchbase/nitro/skiplist"

	"nitroverif/internal/rt"
)

// C13 — the bare skiplist is a linearizable ordered set (with node identities).

type slIn struct {
	Op   string // init | insert | delete | deletenode | lookup | read
	Node uintptr
}
type slOut struct {
	OK   bool
	Node uintptr
}

// state: 0 = absent, else the identity (address) of the current node of the key
var slModel = porcupine.Model{
	Init: func() interface{} { return uintptr(0) },
	Step: func(st, in, out interface{}) (bool, interface{}) {
		s := st.(uintptr)
		i := in.(slIn)
		o := out.(slOut)
		switch i.Op {
		case "init":
			return true, i.Node
		case "insert":
			if s == 0 {
				return o.OK && o.Node != 0, o.Node
			}
			return !o.OK, s
		case "delete":
			if s != 0 {
				return o.OK, uintptr(0)
			}
			return !o.OK, s
		case "deletenode":
			if s != 0 && s == i.Node {
				return o.OK, uintptr(0)
			}
			return !o.OK, s
		default: // lookup / read
			if s == 0 {
				return !o.OK, s
			}
			return o.OK && (o.Node == 0 || o.Node == s), s
		}
	},
	DescribeOperation: func(in, out interface{}) string {
		i, o := in.(slIn), out.(slOut)
		return fmt.Sprintf("%s(%x)->%v %x", i.Op, i.Node, o.OK, o.Node)
	},
}

type slRec struct {
	key int
	op  porcupine.Operation
}

// slDeleteMM deletes by lookup + DeleteNode2 + flush, the way nitro does in
// user-managed mode.
func slDeleteMM(s *skiplist.Skiplist, itm unsafe.Pointer, buf *skiplist.ActionBuffer) (ok bool, node uintptr) {
	tok := s.GetAccesBarrier().Acquire()
	_, n, found := s.Lookup(itm, skiplist.CompareInt, buf, &s.Stats)
	if found {
		node = uintptr(unsafe.Pointer(n))
		ok = s.DeleteNode2(n, skiplist.CompareInt, buf, &s.Stats)
	}
	s.GetAccesBarrier().Release(tok)
	if ok {
		s.GetAccesBarrier().FlushSession(unsafe.Pointer(n))
	}
	return
}

func c13Stress(c *rt.C) {
	r := c.Rng
	mem := []string{"go", "go", "poison", "pageguard"}[c.Index%4]
	e := newSLEnv(mem)
	s := skiplist.NewWithConfig(e.cfg)
	nG := pick(r, 2, 3, 4, 8, 16)
	nKeys := pick(r, 1, 1, 2, 4, 8, 16)
	phases := 4 + r.Intn(6)
	opsPerG := 48 * nKeys / nG
	if opsPerG < 3 {
		opsPerG = 3
	}
	if opsPerG > 40 {
		opsPerG = 40
	}
	perturb := pick(r, 0, 1, 4, 8)
	if perturb > 0 {
		ps := r.Int63()
		y := yielder(ps, perturb)
		pt := perturber(ps, perturb)
		skiplist.VerifSetHook(func(id int, arg unsafe.Pointer) { pt(id) })
		if e.a != nil {
			e.a.SetYield(y)
		}
	}
	defer skiplist.VerifSetHook(nil)
	if e.a != nil {
		e.a.SetOnFree(func(p unsafe.Pointer, size int) {
			if lvl := linkedAt(s, p, 100000); lvl >= 0 {
				c.Count("freed_while_linked", 1)
			}
		})
	}
	state := map[int]uintptr{}
	var keepNodes []*skiplist.Node // Go mode: keep every node alive so that addresses stay unique identities
	var kmu sync.Mutex
	histories, unknown, maxConc := 0, 0, 0
	var sample []string
	forcedTall := r.Intn(2) == 0
	if forcedTall {
		raiseLevel(s, 5)
	}
	for ph := 0; ph < phases && !c.Failed(); ph++ {
		recs := make([][]slRec, nG)
		var wg sync.WaitGroup
		start := make(chan struct{})
		for g := 0; g < nG; g++ {
			wg.Add(1)
			go func(g int) {
				defer wg.Done()
				lr := rand.New(rand.NewSource(c.Seed + int64(ph)*7907 + int64(g)))
				buf := s.MakeBuf()
				var handles []*skiplist.Node
				<-start
				for i := 0; i < opsPerG; i++ {
					k := lr.Intn(nKeys)
					itm := e.intItem(k)
					var rec porcupine.Operation
					rec.ClientId = g
					switch x := lr.Intn(10); {
					case x < 4:
						rec.Input = slIn{Op: "insert"}
						rec.Call = Tick()
						var n *skiplist.Node
						var ok bool
						if forcedTall && lr.Intn(2) == 0 {
							n, ok = s.Insert3(itm, skiplist.CompareInt, nil, buf, lr.Intn(5), false, &s.Stats)
						} else {
							n, ok = s.Insert2(itm, skiplist.CompareInt, nil, buf, lr.Float32, &s.Stats)
						}
						rec.Return = Tick()
						out := slOut{OK: ok}
						if ok {
							out.Node = uintptr(unsafe.Pointer(n))
							handles = append(handles, n)
							if e.a == nil {
								kmu.Lock()
								keepNodes = append(keepNodes, n)
								kmu.Unlock()
							}
						}
						rec.Output = out
					case x < 7:
						rec.Input = slIn{Op: "delete"}
						rec.Call = Tick()
						var ok bool
						if e.a != nil {
							ok, _ = slDeleteMM(s, itm, buf)
						} else {
							ok = s.Delete(itm, skiplist.CompareInt, buf, &s.Stats)
						}
						rec.Return = Tick()
						rec.Output = slOut{OK: ok}
					case x < 8 && e.a == nil && len(handles) > 0:
						// DeleteNode through a handle this goroutine got from one of its own inserts (possibly stale: Go memory only)
						h := handles[lr.Intn(len(handles))]
						k = skiplist.IntFromItem(h.Item())
						rec.Input = slIn{Op: "deletenode", Node: uintptr(unsafe.Pointer(h))}
						rec.Call = Tick()
						ok := s.DeleteNode(h, skiplist.CompareInt, buf, &s.Stats)
						rec.Return = Tick()
						rec.Output = slOut{OK: ok}
					default:
						rec.Input = slIn{Op: "lookup"}
						tok := s.GetAccesBarrier().Acquire()
						rec.Call = Tick()
						_, n, found := s.Lookup(itm, skiplist.CompareInt, buf, &s.Stats)
						rec.Return = Tick()
						out := slOut{OK: found}
						if found {
							out.Node = uintptr(unsafe.Pointer(n))
						}
						s.GetAccesBarrier().Release(tok)
						rec.Output = out
					}
					recs[g] = append(recs[g], slRec{k, rec})
				}
			}(g)
		}
		close(start)
		wg.Wait()
		// quiescent: final read per key from an iterator scan with node identities
		final := map[int]slOut{}
		buf := s.MakeBuf()
		it := s.NewIterator(skiplist.CompareInt, buf)
		prev := -1 << 30
		for it.SeekFirst(); it.Valid(); it.Next() {
			v := skiplist.IntFromItem(it.Get())
			if v <= prev {
				c.Violate("final-scan-order", fmt.Sprintf("phase %d: iterator after quiescence yields %d after %d", ph, v, prev), nil)
			}
			prev = v
			final[v] = slOut{OK: true, Node: uintptr(unsafe.Pointer(it.GetNode()))}
		}
		it.Close()
		tRead := Tick()
		per := map[int][]porcupine.Operation{}
		for k := 0; k < nKeys; k++ {
			per[k] = append(per[k], porcupine.Operation{ClientId: nG, Input: slIn{Op: "init", Node: state[k]}, Output: slOut{}, Call: 0, Return: 0})
		}
		for g := range recs {
			for _, rc := range recs[g] {
				per[rc.key] = append(per[rc.key], rc.op)
			}
		}
		for k := 0; k < nKeys; k++ {
			per[k] = append(per[k], porcupine.Operation{ClientId: nG + 1, Input: slIn{Op: "read"}, Output: final[k], Call: tRead, Return: tRead + 1})
			res, _ := porcupine.CheckOperationsVerbose(slModel, per[k], 20*time.Second)
			histories++
			if mc := maxConcurrencySL(per[k]); mc > maxConc {
				maxConc = mc
			}
			c.Sig("%s", ilSigSL(per[k]))
			if res == porcupine.Unknown {
				unknown++
			} else if res == porcupine.Illegal {
				c.Violate("not-linearizable", fmt.Sprintf("phase %d key %d (%d goroutines, mem %s): history is not linearizable w.r.t. the ordered set with node identities: %v", ph, k, nG, mem, slHist(per[k], 60)),
					map[string]interface{}{"mem": mem, "goroutines": nG, "keys": nKeys, "history": slHist(per[k], 200)})
			}
			if sample == nil && len(per[k]) > 5 {
				sample = slHist(per[k], 25)
			}
			state[k] = final[k].Node
		}
		// structure and statistics at quiescence
		w := WalkLive(s, func(a, b unsafe.Pointer) int { return skiplist.CompareInt(a, b) }, func(unsafe.Pointer) int { return 0 }, 1<<20, liveOf(e))
		if len(w.NotLive) > 0 {
			c.Violate("freed-while-linked", w.NotLive[0], nil)
		} else if len(w.Problems) > 0 {
			c.Count("c14_structure_problems", 1)
			c.Inconclusive("structure walk complained (C14's oracle): " + w.Problems[0])
		}
	}
	if e.a != nil {
		e.a.SetOnFree(nil)
		for _, v := range e.a.Violations() {
			c.Violate("alloc-"+v.Kind, fmt.Sprintf("%+v", v), nil)
		}
		e.a.CheckQuarantine()
	}
	c.Evals(int64(histories))
	c.Count("histories_checked", int64(histories))
	c.Count("checker_unknown", int64(unknown))
	if unknown*4 > histories {
		c.Inconclusive("too many checker timeouts")
	}
	c.Sample(map[string]interface{}{"mem": mem, "goroutines": nG, "keys": nKeys, "phases": phases, "forced_levels": forcedTall, "perturb": perturb, "max_concurrency_per_key": maxConc, "history": sample})
	_ = keepNodes
}

func liveOf(e *slEnv) func(unsafe.Pointer) bool {
	if e.a == nil {
		return nil
	}
	return e.a.IsLive
}

func slHist(h []porcupine.Operation, max int) []string {
	hs := append([]porcupine.Operation(nil), h...)
	sort.Slice(hs, func(i, j int) bool { return hs[i].Call < hs[j].Call })
	var out []string
	for i, o := range hs {
		if i >= max {
			out = append(out, "…")
			break
		}
		in, ou := o.Input.(slIn), o.Output.(slOut)
		out = append(out, fmt.Sprintf("[%d,%d] g%d %s(%x)->%v %x", o.Call, o.Return, o.ClientId, in.Op, in.Node&0xffffff, ou.OK, ou.Node&0xffffff))
	}
	return out
}

func maxConcurrencySL(h []porcupine.Operation) int {
	type ev struct {
		t int64
		d int
	}
	var evs []ev
	for _, o := range h {
		evs = append(evs, ev{o.Call, 1}, ev{o.Return, -1})
	}
	sort.Slice(evs, func(i, j int) bool { return evs[i].t < evs[j].t })
	cur, mx := 0, 0
	for _, e := range evs {
		cur += e.d
		if cur > mx {
			mx = cur
		}
	}
	return mx
}

func ilSigSL(h []porcupine.Operation) string {
	type ev struct {
		t int64
		s string
	}
	var evs []ev
	for _, o := range h {
		evs = append(evs, ev{o.Call, fmt.Sprintf("%dc%s", o.ClientId, o.Input.(slIn).Op)}, ev{o.Return, fmt.Sprintf("%dr", o.ClientId)})
	}
	sort.Slice(evs, func(i, j int) bool { return evs[i].t < evs[j].t })
	var hs uint64 = 1469598103934665603
	for _, e := range evs {
		for _, b := range []byte(e.s) {
			hs ^= uint64(b)
			hs *= 1099511628211
		}
	}
	return fmt.Sprintf("sl-%x", hs)
}

// ---------------------------------------------------------------------------
// micro-scenarios under the serialized controller (Go-managed memory: the
// skiplist's CAS points are the scheduling points)

var slPoints = []int{skiplist.VpInsBeforePublish, skiplist.VpInsBeforeLink, skiplist.VpInsLinked, skiplist.VpDelBeforeMark, skiplist.VpDelMarked, skiplist.VpHelpBeforeUnlink}

type slMicro struct {
	Name  string
	Pre   bool // key 30 present initially (height given by PreLevel)
	PreLv int
	Progs []string // I<level> insert 30 with that level, D delete 30, L lookup 30, N insert neighbour 29, M delete neighbour 20, P delete 10, S insert successor 31, V insert 35 with height 1, T lookup 31
}

var slMicros = []slMicro{
	{"insert(h0) || insert(h0)", false, 0, []string{"I0", "I0"}},
	{"insert(h1) || insert(h2)", false, 0, []string{"I1", "I2"}},
	{"insert(h2) || delete", false, 0, []string{"I2", "D"}},
	{"insert(h1) || delete || lookup", false, 0, []string{"I1", "D", "L"}},
	{"delete || delete (h2 node)", true, 2, []string{"D", "D"}},
	{"delete || delete || lookup (h1 node)", true, 1, []string{"D", "D", "L"}},
	{"delete(h2 node) || insert neighbour", true, 2, []string{"D", "N"}},
	{"delete;insert(h1) || delete", true, 1, []string{"DI1", "D"}},
	{"delete || delete predecessor", true, 2, []string{"D", "M"}},
	{"insert(h2);delete || insert(h1)", false, 0, []string{"I2D", "I1"}},
	{"delete(h0 node) || insert successor", true, 0, []string{"D", "S"}},
	{"delete(h1 node) || insert successor || lookup successor", true, 1, []string{"D", "S", "T"}},
	// runs of adjacent marked-but-still-linked nodes (10, 20, 30 are neighbours) met by a later search
	{"delete 10 || delete 20 || delete;insert(h0)", true, 0, []string{"P", "M", "DI0"}},
	// a neighbour takes the level-1 slot while the inserter links level 1, the half-linked node is deleted, then a key is inserted right behind it
	{"insert(h1) || insert 35(h1) || delete;insert successor", false, 0, []string{"I1", "V", "DS"}},
}

// c13Micro explores one micro-scenario. judge selects whose oracles count:
// "C13" (linearizability, final scan), "C14" (structure + statistics at quiescence, Go memory),
// "C04" (user-managed memory: nothing released while still linked, allocator violations).
func c13Micro(c *rt.C, sc slMicro, maxSched, extra int, judge string) {
	pset := map[int]bool{}
	for _, p := range slPoints {
		pset[p] = true
	}
	rng := rand.New(rand.NewSource(c.Seed))
	var prefix []int
	schedules := 0
	lingering := 0
	exhausted := false
	sigs := map[string]bool{}
	var sample []string
	names := make([]string, len(sc.Progs))
	for i := range names {
		names[i] = fmt.Sprintf("g%d[%s]", i, sc.Progs[i])
	}
	pn := map[int]string{skiplist.VpInsBeforePublish: "ins.before-publish", skiplist.VpInsBeforeLink: "ins.before-link", skiplist.VpInsLinked: "ins.linked",
		skiplist.VpDelBeforeMark: "del.before-mark", skiplist.VpDelMarked: "del.marked", skiplist.VpHelpBeforeUnlink: "help.before-unlink", -1: "done"}
	one := func(prefix []int, random bool) []sChoice {
		mem := "go"
		if judge == "C04" {
			mem = []string{"poison", "pageguard"}[c.Index%2]
		}
		e := newSLEnv(mem)
		s := skiplist.NewWithConfig(e.cfg)
		raiseLevel(s, 4)
		buf := s.MakeBuf()
		for _, v := range []int{10, 20, 40} {
			s.Insert3(e.intItem(v), skiplist.CompareInt, nil, buf, 2, false, &s.Stats)
		}
		var init uintptr
		if sc.Pre {
			n, _ := s.Insert3(e.intItem(30), skiplist.CompareInt, nil, buf, sc.PreLv, false, &s.Stats)
			init = uintptr(unsafe.Pointer(n))
		}
		ctl := &sCtl{yieldc: make(chan sYield), points: pset, prefix: prefix, maxStep: 300}
		if random {
			ctl.rng = rng
		}
		skiplist.VerifSetHook(ctl.hook)
		// user-managed delete as nitro does it; the flush runs without parking (the
		// barrier's internal queue is itself a skiplist whose hook points would
		// otherwise park the actor while it holds the flush mutex)
		delMM := func(itm unsafe.Pointer, b *skiplist.ActionBuffer) bool {
			tok := s.GetAccesBarrier().Acquire()
			_, n, found := s.Lookup(itm, skiplist.CompareInt, b, &s.Stats)
			ok := false
			if found {
				ok = s.DeleteNode2(n, skiplist.CompareInt, b, &s.Stats)
			}
			ctl.noYield = true
			s.GetAccesBarrier().Release(tok)
			if ok {
				s.GetAccesBarrier().FlushSession(unsafe.Pointer(n))
			}
			ctl.noYield = false
			return ok
		}
		var hmu sync.Mutex
		hist := []porcupine.Operation{{ClientId: len(sc.Progs), Input: slIn{Op: "init", Node: init}, Output: slOut{}, Call: 0, Return: 0}}
		others := map[int]bool{10: true, 20: true, 40: true}
		for i, prog := range sc.Progs {
			i, prog := i, prog
			a := &sActor{id: i, resume: make(chan struct{})}
			a.prog = func(a *sActor) {
				b := s.MakeBuf()
				for j := 0; j < len(prog); j++ {
					var rec porcupine.Operation
					rec.ClientId = i
					key30 := true
					switch prog[j] {
					case 'I':
						lvl := int(prog[j+1] - '0')
						j++
						rec.Input = slIn{Op: "insert"}
						rec.Call = Tick()
						n, ok := s.Insert3(e.intItem(30), skiplist.CompareInt, nil, b, lvl, false, &s.Stats)
						rec.Return = Tick()
						out := slOut{OK: ok}
						if ok {
							out.Node = uintptr(unsafe.Pointer(n))
						}
						rec.Output = out
					case 'D':
						rec.Input = slIn{Op: "delete"}
						rec.Call = Tick()
						var ok bool
						if e.a != nil {
							ok = delMM(e.intItem(30), b)
						} else {
							ok = s.Delete(e.intItem(30), skiplist.CompareInt, b, &s.Stats)
						}
						rec.Return = Tick()
						rec.Output = slOut{OK: ok}
					case 'L':
						rec.Input = slIn{Op: "lookup"}
						rec.Call = Tick()
						_, n, found := s.Lookup(e.intItem(30), skiplist.CompareInt, b, &s.Stats)
						rec.Return = Tick()
						out := slOut{OK: found}
						if found {
							out.Node = uintptr(unsafe.Pointer(n))
						}
						rec.Output = out
					case 'N':
						key30 = false
						if !s.Insert(e.intItem(29), skiplist.CompareInt, b, &s.Stats) {
							panic("neighbour insert failed")
						}
						hmu.Lock()
						others[29] = true
						hmu.Unlock()
					case 'S':
						key30 = false
						if !s.Insert(e.intItem(31), skiplist.CompareInt, b, &s.Stats) {
							panic("successor insert failed")
						}
						hmu.Lock()
						others[31] = true
						hmu.Unlock()
					case 'V':
						key30 = false
						if _, ok := s.Insert3(e.intItem(35), skiplist.CompareInt, nil, b, 1, false, &s.Stats); !ok {
							panic("insert of 35 failed")
						}
						hmu.Lock()
						others[35] = true
						hmu.Unlock()
					case 'T':
						key30 = false
						s.Lookup(e.intItem(31), skiplist.CompareInt, b, &s.Stats)
					case 'M', 'P':
						key30 = false
						k := 20
						if prog[j] == 'P' {
							k = 10
						}
						var ok bool
						if e.a != nil {
							ok = delMM(e.intItem(k), b)
						} else {
							ok = s.Delete(e.intItem(k), skiplist.CompareInt, b, &s.Stats)
						}
						if !ok {
							panic("neighbour delete failed")
						}
						hmu.Lock()
						delete(others, k)
						hmu.Unlock()
					}
					if key30 {
						hmu.Lock()
						hist = append(hist, rec)
						hmu.Unlock()
					}
				}
			}
			ctl.actors = append(ctl.actors, a)
		}
		complete := ctl.run()
		skiplist.VerifSetHook(nil)
		schedules++
		sigs[traceSig(ctl.trace)] = true
		var tr []string
		for _, st := range ctl.trace {
			tr = append(tr, fmt.Sprintf("%s@%s", names[st.Actor], pn[st.Point]))
		}
		if sample == nil {
			sample = tr
		}
		witness := map[string]interface{}{"scenario": sc.Name, "programs": sc.Progs, "schedule": tr}
		for _, a := range ctl.actors {
			if a.panicV != nil {
				c.Violate("panic", fmt.Sprintf("scenario {%s}: actor %s panicked: %v", sc.Name, names[a.id], a.panicV), witness)
			}
		}
		if !complete || c.Failed() {
			return append([]sChoice(nil), ctl.choices...)
		}
		// structure first: a read-only walk (the scan and lookup below would help unlinking marked nodes)
		w := WalkLive(s, func(a, b unsafe.Pointer) int { return skiplist.CompareInt(a, b) }, func(unsafe.Pointer) int { return 0 }, 1000, liveOf(e))
		if w.UpperMarked > 0 {
			lingering++
		}
		switch judge {
		case "C04":
			if len(w.NotLive) > 0 {
				c.Violate("freed-while-linked", fmt.Sprintf("scenario {%s}: after all actors left the barrier: %s", sc.Name, w.NotLive[0]), witness)
			}
			for _, v := range e.a.Violations() {
				c.Violate("alloc-"+v.Kind, fmt.Sprintf("scenario {%s}: %+v", sc.Name, v), witness)
			}
			return append([]sChoice(nil), ctl.choices...)
		case "C14":
			if len(w.Problems) > 0 {
				c.Violate("structure-at-quiescence", fmt.Sprintf("scenario {%s}: structure walk after all actors finished: %v", sc.Name, w.Problems), witness)
			}
			if ps := slStatsProblems(s, w); len(ps) > 0 {
				c.Violate("statistics-at-quiescence", fmt.Sprintf("scenario {%s}: %v", sc.Name, ps), witness)
			}
			return append([]sChoice(nil), ctl.choices...)
		}
		// final read + scan
		got := slScan(s)
		want := []int{}
		for k := range others {
			want = append(want, k)
		}
		_, n30, found := s.Lookup(e.intItem(30), skiplist.CompareInt, buf, &s.Stats)
		out := slOut{OK: found}
		if found {
			out.Node = uintptr(unsafe.Pointer(n30))
			want = append(want, 30)
		}
		sort.Ints(want)
		t := Tick()
		hist = append(hist, porcupine.Operation{ClientId: len(sc.Progs) + 1, Input: slIn{Op: "read"}, Output: out, Call: t, Return: t + 1})
		if !porcupine.CheckOperations(slModel, hist) {
			witness["history"] = slHist(hist, 50)
			c.Violate("not-linearizable", fmt.Sprintf("scenario {%s}: results are not linearizable: %v", sc.Name, slHist(hist, 50)), witness)
		}
		if !intsEqual(got, want) {
			c.Violate("final-content", fmt.Sprintf("scenario {%s}: iterator after quiescence yields %v, expected %v", sc.Name, got, want), witness)
		}
		// the index levels must lead to every item the bottom level holds
		for _, k := range want {
			if _, _, found := s.Lookup(e.intItem(k), skiplist.CompareInt, buf, &s.Stats); !found {
				c.Violate("final-lookup", fmt.Sprintf("scenario {%s}: after quiescence the iterator yields %v but Lookup(%d) does not find the item (it was inserted successfully and never deleted)", sc.Name, got, k), witness)
				break
			}
		}
		return append([]sChoice(nil), ctl.choices...)
	}
	for !c.Failed() {
		ch := one(prefix, false)
		prefix = nextPrefix(ch)
		if prefix == nil {
			exhausted = true
			break
		}
		if schedules >= maxSched {
			break
		}
	}
	if !exhausted {
		for i := 0; i < extra && !c.Failed(); i++ {
			one(nil, true)
		}
	}
	c.Evals(int64(schedules))
	for sg := range sigs {
		c.Sig("%s/%s", sc.Name, sg)
	}
	c.Count("schedules", int64(schedules))
	c.Count("schedules_ending_with_a_marked_node_linked_at_an_upper_level", int64(lingering))
	if exhausted {
		c.Count("scenarios_exhausted", 1)
	}
	c.Sample(map[string]interface{}{"scenario": sc.Name, "judged_for": judge, "programs": sc.Progs, "granularity": "skiplist CAS points", "schedules": schedules, "distinct_signatures": len(sigs), "exhaustive": exhausted, "one_schedule": sample})
}

func init() {
	rt.Register(&rt.Prop{
		ID: "C13", Level: "exploration",
		Technique: "runtime monitoring: client-boundary histories checked with porcupine against an ordered-set model with node identities; micro-scenarios enumerated by the serialized controller over the skiplist's CAS hook points; structure walk at quiescence",
		Rule: "cases 0..13: micro-scenarios (insert‖insert, insert‖delete, delete‖delete, with lookups, neighbours and node heights 0-2) explored depth-first by re-execution under the serialized controller with every hook point before a CAS in Insert4/softDelete/helpDelete as scheduling point (bounded, then seeded random); each schedule's results must be linearizable and the final scan exact. " +
			"Other cases: 2-16 goroutines issue Insert2/Insert3(forced level)/Delete/DeleteNode(handle, Go memory)/Lookup on 1-16 int keys in chained phases; per-key histories + post-quiescence scan are checked with porcupine (model state = identity of the key's current node, so 'a given node is deleted successfully by exactly one caller' is decided); Go-managed, poison and pageguard memory (user-managed deletes go through lookup + DeleteNode2 + FlushSession as nitro does). evaluations = schedules + histories; distinct = interleaving signatures",
		Assumptions: []string{"in user-managed mode node handles are only used under the accessor token they were obtained with", "porcupine v1.3.0 trusted as checker"},
		Cases: func(t string) int {
			if t == "thorough" {
				return len(slMicros) + 1200
			}
			return len(slMicros) + 54
		},
		Batch:         func(t string) int { return 4 },
		Procs:         16,
		MinSigs:       100,
		PostAggregate: barPost,
		Run: func(c *rt.C) {
			if c.Index < len(slMicros) {
				maxS, extra := 20000, 2000
				if c.Tier == "thorough" {
					maxS, extra = 400000, 100000
				}
				c13Micro(c, slMicros[c.Index], maxS, extra, "C13")
				return
			}
			c13Stress(c)
		},
	})
}
