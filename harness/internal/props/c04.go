package props

import (
	"bytes"
	"fmt"
	"path/filepath"
	"runtime"
	"runtime/debug"
	"sort"
	"strings"
	"sync"
	"sync/atomic"
	"time"
	"unsafe"

	"github.com/couchbase/nitro"
	"github.com/couchbase/nitro/skiplist"

	"nitroverif/internal/galloc"
	"nitroverif/internal/rt"
)

// C04 — safe memory reclamation: guard allocators + freed-while-linked
// monitor + reachable ⊆ live-set, on both engines in user-managed mode.

func runC04(c *rt.C) {
	r := c.Rng
	mem := []string{"pageguard", "poison"}[c.Index%2]
	if c.Index < 6 {
		// directed schedules: (height, level parked before)
		hp := [][2]int{{1, 1}, {2, 1}, {2, 2}, {3, 1}, {3, 3}, {4, 2}}[c.Index]
		c04InsertVsDelete(c, mem, hp[0], hp[1])
		c.Sample(map[string]interface{}{"directed": "insert-vs-delete", "height": hp[0], "park_before_level": hp[1], "mem": mem})
		return
	}
	if c.Index >= 6+len(slMicros) && c.Index < 6+len(slMicros)+4 {
		nodeListLifecycle(c, mem, (c.Index-(6+len(slMicros)))/2 == 1)
		return
	}
	if c.Index == 6+len(slMicros)+12 {
		c04DeltaRefresh(c)
		return
	}
	if c.Index == 6+len(slMicros)+17 || c.Index == 6+len(slMicros)+18 {
		c14HeightRace(c, "C04")
		return
	}
	if c.Index >= 6+len(slMicros)+13 && c.Index <= 6+len(slMicros)+16 {
		c04TwoFlushers(c, mem, c.Index >= 6+len(slMicros)+15)
		return
	}
	if c.Index >= 6+len(slMicros)+4 && c.Index < 6+len(slMicros)+12 {
		c04ParkedAccessor(c, mem, (c.Index-(6+len(slMicros)+4))/2)
		return
	}
	if c.Index < 6+len(slMicros) {
		maxS, extra := 3000, 500
		if c.Tier == "thorough" {
			maxS, extra = 200000, 50000
			if len(slMicros[c.Index-6].Progs) >= 3 {
				maxS, extra = 40000, 10000 // three actors on a guard allocator: keep the case well inside its watchdog
			}
		}
		if c.Index%2 == 1 { // pageguard: two syscalls per block
			maxS, extra = maxS/6, extra/6
		}
		c13Micro(c, slMicros[c.Index-6], maxS, extra, "C04")
		return
	}
	if c.Index%3 == 0 {
		o := CtdOpt{Mem: mem, KV: r.Intn(2) == 0, NWriters: pick(r, 2, 4, 8), NKeys: pick(r, 1, 2, 4, 8),
			Phases: 8 + r.Intn(8), Mix: []string{"mixed", "pingpong", "alldelete", "lookup"}[r.Intn(4)], Perturb: pick(r, 0, 1, 4, 8), KeepSnaps: pick(r, 0, 1, 3)}
		o.OpsPerW = 40
		e := NewContend(c, o)
		e.Run()
		e.Report("C04")
		c.Sig("contend/mix=%s/w=%d/k=%d/keep=%d/mem=%s/perturb=%d", o.Mix, o.NWriters, o.NKeys, o.KeepSnaps, mem, o.Perturb)
		if e.db.A != nil {
			c.Evals(e.db.A.Stats().Frees)
		}
		return
	}
	o := EngOpt{
		Mem: mem, KV: r.Intn(2) == 0,
		NWriters:     pick(r, 2, 4, 8),
		NKeys:        pick(r, 4, 8, 16, 64),
		Phases:       10 + r.Intn(12),
		OpsPerWriter: 60 + r.Intn(200),
		Scanners:     2 + r.Intn(5),
		Refresh:      []int{0, 1, 2, 7},
		Visitors:     true,
		CloseOrder:   []string{"random", "newest-first", "oldest-last"}[r.Intn(3)],
		MaxOpen:      1 + r.Intn(4),
		GCStorm:      r.Intn(2) == 0,
		Perturb:      pick(r, 0, 1, 4, 8),
		Checkpoints:  true,
		Dwell:        true,
		DeleteBias:   40 + r.Intn(15),
	}
	e := NewEngine(c, o)
	e.Run()
	e.Report("C04")
	for s := range e.AgeSigs {
		c.Sig("%s/mem=%s/perturb=%d", s, mem, o.Perturb)
	}
	if e.db.A != nil {
		c.Evals(e.db.A.Stats().Frees)
	}
}

func init() {
	rt.Register(&rt.Prop{
		ID: "C04", Level: "exploration",
		Technique: "sanitizer-style runtime monitoring: MMU-enforced page-guard allocator and poison/quarantine allocator passed through Config.UseMemoryMgmt, exact shadow live-set, 'freed while still linked' walk on every free, reachable ⊆ live-set at quiescent checkpoints, held-node re-reads",
		Rule: "user-managed memory only, alternating pageguard / poison. Two of three cases run the ownership engine (2-8 writers, 4-64 keys, 2-6 scanner goroutines with refresh rates {0,1,2,7} that hold nodes and re-read them, concurrent Visitors, snapshot churn closed in random/newest-first/oldest-last order from concurrent goroutines, GC() storms, hook and allocator perturbation); every third case runs the contention engine (2-8 writers on 1-8 shared keys, same-epoch and cross-epoch deletes of one node by several writers). " +
			"Cases 37-38 are the height race on the bare skiplist (a writer held inside the level draw of Insert2 while others raise the list's height with tall nodes; the tall nodes are then deleted and flushed: none of them may be released while still linked at a level the unlink pass did not visit). Cases 33-36 are the two-flusher schedule (35-36 with a writer's own delete of a current-epoch item as the second flusher; an iterator parked after loading the pointer to a deleted item b holds a token of session S1; one collection worker flushes an empty list and is parked right after its session swap, a second one unlinks b and flushes it into the younger session; when the iterator resumes and steps onto b, b must still be a live block). Case 32 is the delta-backup refresh schedule (StoreToDisk with delta interleaving scans through a placeholder snapshot, so only the visitor's token protects the items; the visitor is parked inside Iterator.Refresh after dropping its token while its cursor item is deleted, collected and released; the restored backup must still be exact). Cases 24-31 park an accessor (Writer.GetNode, snapshot Iterator.Seek, Writer.Put2, Writer.Delete) inside the user-supplied key comparator right after it loaded a successor pointer, delete that successor (a current-epoch item, flushed at once) from another writer, and resume: the accessor must not touch released memory (hook-free). Cases 20-23 chain nodes in the library's NodeList and delete one of them in its own epoch (only that node may be released). Cases 0-5 are deterministic rendezvous schedules (insert of a tall node parked before linking level k ‖ delete+flush of that node), cases 6-19 enumerate the insert/delete micro-scenarios of C13 under the serialized controller in user-managed memory (after every schedule nothing released may still be linked). A fault inside the guard region, a double/invalid free, damaged poison or canary, a node freed while reachable from the head at any level, or a linked node that is not a live block is a violation. evaluations = blocks freed under guard; distinct = workload configuration / scan-age tuples",
		Assumptions: []string{"a use after free is observed only if it happens while the block is still under guard (pageguard never reuses addresses; poison quarantines for the life of the child process)", "node handles are used by the harness only while it holds an accessor token or the item is undeleted"},
		Cases: func(t string) int {
			if t == "thorough" {
				return 1224
			}
			return 72
		},
		Batch:         func(t string) int { return 3 },
		Procs:         16,
		MinSigs:       20,
		PostAggregate: barPost,
		Run:           runC04,
	})
}

// ---------------------------------------------------------------------------
// directed schedules (rendezvous through hook points)

// c04InsertVsDelete: an insert of a tall node is parked right before it links
// level `parkLevel`; meanwhile another goroutine deletes that node (mark all
// levels, unlink pass) and flushes it, as nitro's same-epoch delete does; then
// the insert resumes. Afterwards no released node may be reachable at any level.
func c04InsertVsDelete(c *rt.C, mem string, height, parkLevel int) {
	e := newSLEnv(mem)
	var freed []unsafe.Pointer
	var fmu sync.Mutex
	e.cfg.BarrierDestructor = func(ref unsafe.Pointer) {
		if ref != nil {
			fmu.Lock()
			freed = append(freed, ref)
			fmu.Unlock()
			e.a.Free(ref)
		}
	}
	s := skiplist.NewWithConfig(e.cfg)
	buf := s.MakeBuf()
	raiseLevel(s, 4)
	// neighbours so that predecessors at upper levels are real nodes
	for _, v := range []int{10, 20, 40, 50} {
		s.Insert3(e.intItem(v), skiplist.CompareInt, nil, buf, 3, false, &s.Stats)
	}
	target := e.intItem(30)
	parked := make(chan struct{})
	resume := make(chan struct{})
	var once sync.Once
	linksSeen := 0
	skiplist.VerifSetHook(func(id int, arg unsafe.Pointer) {
		if id == skiplist.VpInsBeforeLink && arg != nil && (*skiplist.Node)(arg).Item() == target {
			linksSeen++
			if linksSeen == parkLevel {
				once.Do(func() {
					close(parked)
					<-resume
				})
			}
		}
	})
	defer skiplist.VerifSetHook(nil)
	done := make(chan bool)
	go func() {
		b2 := s.MakeBuf()
		_, ok := s.Insert3(target, skiplist.CompareInt, nil, b2, height, false, &s.Stats)
		done <- ok
	}()
	select {
	case <-parked:
	case ok := <-done:
		c.Inconclusive(fmt.Sprintf("hook point before the upper-level link was never reached (insert returned %v)", ok))
		return
	}
	// deleter: lookup + DeleteNode + flush (what Writer.DeleteNode does for a same-epoch item)
	b3 := s.MakeBuf()
	tok := s.GetAccesBarrier().Acquire()
	_, n, found := s.Lookup(target, skiplist.CompareInt, b3, &s.Stats)
	delOK := false
	if found {
		delOK = s.DeleteNode2(n, skiplist.CompareInt, b3, &s.Stats)
	}
	s.GetAccesBarrier().Release(tok)
	if delOK {
		s.GetAccesBarrier().FlushSession(unsafe.Pointer(n))
	}
	close(resume)
	insOK := <-done
	c.Evals(1)
	c.Sig("directed/insert-vs-delete/h=%d/park=%d/mem=%s/del=%v", height, parkLevel, mem, delOK)
	if !insOK || !delOK {
		c.Inconclusive(fmt.Sprintf("schedule did not materialise: insert=%v delete=%v", insOK, delOK))
		return
	}
	// quiescent now: nothing released may be reachable, at any level
	fmu.Lock()
	fr := append([]unsafe.Pointer(nil), freed...)
	fmu.Unlock()
	w := WalkLive(s, func(a, b unsafe.Pointer) int { return skiplist.CompareInt(a, b) }, func(unsafe.Pointer) int { return 0 }, 1000, e.a.IsLive)
	if len(w.NotLive) > 0 {
		c.Violate("freed-while-linked", fmt.Sprintf("directed schedule (insert of a height-%d node parked before linking level %d; node deleted and flushed meanwhile; insert resumed): %s", height, parkLevel, w.NotLive[0]),
			map[string]interface{}{"mem": mem, "height": height, "park_level": parkLevel, "released_blocks": len(fr)})
		return
	}
	for nd := range w.ReachableUpper {
		if !e.a.IsLive(unsafe.Pointer(nd)) {
			c.Violate("freed-while-linked", fmt.Sprintf("directed schedule (insert of a height-%d node parked before linking level %d, node deleted and flushed meanwhile): the released node is still linked at an upper level", height, parkLevel),
				map[string]interface{}{"mem": mem, "height": height, "park_level": parkLevel, "released_blocks": len(fr)})
			return
		}
	}
	for _, nd := range w.Nodes {
		if !e.a.IsLive(unsafe.Pointer(nd)) {
			c.Violate("freed-while-linked", "directed schedule: a released node is still linked on level 0", nil)
			return
		}
	}
	if len(fr) != 1 {
		c.Violate("flush-not-destructed", fmt.Sprintf("directed schedule: %d blocks released after everybody left the barrier, expected the deleted node", len(fr)), nil)
	}
	// further traffic across the spot must not fault
	for v := 25; v < 36; v++ {
		s.Insert(e.intItem(v), skiplist.CompareInt, buf, &s.Stats)
	}
	for _, v := range e.a.Violations() {
		c.Violate("alloc-"+v.Kind, fmt.Sprintf("%+v", v), nil)
	}
}

// raiseLevel grows the skiplist's current maximum level to at least lvl (the
// level only grows through NewLevel, one step per call).
func raiseLevel(s *skiplist.Skiplist, lvl int) {
	for i := 1; i <= lvl+1; i++ {
		k := 0
		s.NewLevel(func() float32 {
			k++
			if k <= i {
				return 0
			}
			return 1
		})
	}
}

// ---------------------------------------------------------------------------
// comparator-parked accessors (hook-free: the key comparator is user-supplied)
//
// Keys P < V < T. An accessor (lookup, insert, delete, snapshot-iterator seek) that walks towards T
// is parked inside the key comparator while it compares P with its probe, i.e. after it has already
// loaded P's successor V. Meanwhile V — inserted in the current epoch — is deleted by another
// writer, which flushes it to the free workers. The accessor then resumes and steps onto V. With a
// correct barrier V cannot be released before the accessor has left the structure.
func c04ParkedAccessor(c *rt.C, mem string, api int) {
	apiName := []string{"Writer.GetNode", "snapshot Iterator.Seek", "Writer.Put2", "Writer.Delete"}[api]
	P, V, T := []byte("key-0005"), []byte("key-0006"), []byte("key-0007")
	hits, trials := 0, 12
	for trial := 0; trial < trials && !c.Failed(); trial++ {
		var armed int32
		parked := make(chan struct{})
		resume := make(chan struct{})
		var once sync.Once
		cmp := func(a, b []byte) int {
			if atomic.LoadInt32(&armed) == 1 && bytes.Equal(a, P) && bytes.HasPrefix(b, T) {
				once.Do(func() {
					close(parked)
					<-resume
				})
			}
			return bytes.Compare(a, b)
		}
		cfg := nitro.DefaultConfig()
		cfg.SetKeyComparator(cmp)
		m := galloc.Poison
		if mem == "pageguard" {
			m = galloc.PageGuard
		}
		a := galloc.New(m)
		cfg.UseMemoryMgmt(a.Malloc, a.Free)
		db := nitro.NewWithConfig(cfg)
		w1, w2 := db.NewWriter(), db.NewWriter()
		for i := 0; i < 12; i++ {
			if i != 6 {
				w1.Put([]byte(fmt.Sprintf("key-%04d", i)))
			}
		}
		s1, _ := db.NewSnapshot()
		w1.Put(V) // born in the current epoch: its delete is physical and flushes the node at once
		type res struct {
			fault interface{}
		}
		done := make(chan res, 1)
		go func() {
			debug.SetPanicOnFault(true)
			defer func() { done <- res{recover()} }()
			atomic.StoreInt32(&armed, 1)
			switch api {
			case 0:
				w2.GetNode(T)
			case 1:
				it := s1.NewIterator()
				it.Seek(T)
				if it.Valid() {
					_ = append([]byte(nil), it.Get()...)
				}
				it.Close()
			case 2:
				w2.Put2(append(append([]byte{}, T...), 'x')) // a new key right behind T
			default:
				w2.Delete(T)
			}
		}()
		reached := false
		select {
		case <-parked:
			reached = true
		case r := <-done:
			done <- r
		}
		if reached {
			hits++
			vNodeDeleted := w1.Delete(V)
			// let the free worker run if it is allowed to
			for i := 0; i < 200; i++ {
				runtime.Gosched()
				if fl, _ := db.VerifQueueLens(); fl == 0 && i > 50 {
					break
				}
			}
			time.Sleep(2 * time.Millisecond)
			close(resume)
			_ = vNodeDeleted
		}
		r := <-done
		atomic.StoreInt32(&armed, 0)
		c.Evals(1)
		if r.fault != nil {
			c.Violate("use-after-free/"+apiName, fmt.Sprintf("%s was parked inside the key comparator (after loading the successor of %q); the successor %q, inserted in the current epoch, was deleted by another writer meanwhile; on resuming, the accessor touched released memory: %v", apiName, P, V, r.fault),
				map[string]interface{}{"api": apiName, "mem": mem, "trial": trial})
			return
		}
		for _, v := range a.Violations() {
			c.Violate("alloc-"+v.Kind, fmt.Sprintf("%s parked in the comparator: %+v", apiName, v), nil)
		}
		s1.Close()
		db.Close()
		if n := a.LiveCount(); n != 0 && !c.Failed() {
			c.Inconclusive(fmt.Sprintf("C07's oracle: %d blocks live after Close", n))
		}
	}
	c.Sig("parked-accessor/%s/mem=%s/reached=%v", apiName, mem, hits > 0)
	c.Count("parked_accessor_trials_reaching_the_window", int64(hits))
	if hits == 0 {
		c.Inconclusive("the comparator window was never reached")
	}
	c.Sample(map[string]interface{}{"directed": "comparator-parked accessor", "api": apiName, "mem": mem, "trials": trials, "window_reached": hits})
}

// ---------------------------------------------------------------------------
// delta-interleaved backup: the visitor's auto-refresh while nothing but its token protects the items
//
// With delta interleaving StoreToDisk releases the snapshot and scans through a private placeholder,
// so the items under the scan are protected only by the scanning iterator's accessor token. The
// visitor refreshes that token every 10000 items. The schedule: a visitor is parked inside
// Iterator.Refresh right before it drops its old token; the item under its cursor is deleted, the next
// snapshot is created and closed, the collection worker unlinks and flushes it; once the visitor is the
// last accessor in the way it resumes, its own Release terminates the session and the free worker
// releases the item while the visitor is still inside that Release. The restored backup must still
// be exactly the stored snapshot (the item comes back through the delta file) and nothing may fault.
func c04DeltaRefresh(c *rt.C) {
	const nKeys = 250000 // 16 shards, most of them > 10000 items: the first visitor worker that refreshes is parked, the others run to completion
	db := OpenDB(DBOpt{Mem: "poison", Delta: true})
	db.A.Stacks = false
	w := db.N.NewWriter()
	want := make([]Entry, nKeys)
	for i := 0; i < nKeys; i++ {
		k := []byte(fmt.Sprintf("key-%08d", i))
		w.Put(k)
		want[i] = Entry{string(k), k}
	}
	s, _ := db.N.NewSnapshot()
	var lastDelivered sync.Map // goroutine id of the visitor worker -> last item it delivered
	var parkedGoid int64
	var armed int32 = 1
	parked := make(chan struct{})
	resume := make(chan struct{})
	var once sync.Once
	// stage 1: the first visitor worker whose Iterator.Refresh is about to drop its token is parked right
	// before the decrement (arg = its session). stage 2: the same goroutine is held again after the ordered
	// cleanup it triggers (still inside that Release) until the free worker has released the item.
	var parkedSession unsafe.Pointer
	var itemPtr unsafe.Pointer
	stage2 := make(chan struct{})
	var once2 sync.Once
	inRefresh := func() bool {
		var pcs [24]uintptr
		n := runtime.Callers(3, pcs[:])
		fr := runtime.CallersFrames(pcs[:n])
		for {
			f, more := fr.Next()
			if strings.HasSuffix(f.Function, "nitro.(*Iterator).Refresh") {
				return true
			}
			if !more {
				return false
			}
		}
	}
	skiplist.VerifSetHook(func(id int, arg unsafe.Pointer) {
		switch id {
		case skiplist.VpRelBeforeDec:
			if atomic.LoadInt32(&armed) == 1 && inRefresh() {
				once.Do(func() {
					atomic.StoreInt32(&armed, 0)
					atomic.StoreInt64(&parkedGoid, goid())
					parkedSession = arg
					close(parked)
					<-resume
				})
			}
		case skiplist.VpRelUnlocked:
			if atomic.LoadInt64(&parkedGoid) != 0 && goid() == atomic.LoadInt64(&parkedGoid) {
				once2.Do(func() { <-stage2 })
			}
		}
	})
	defer skiplist.VerifSetHook(nil)
	dir := filepath.Join(c.Tmp, "bk")
	errc := make(chan error, 1)
	go func() {
		// 16 visitor workers, one per shard: each refreshes its token after 10000 items. The first one to
		// do so is parked; the others finish and drop their tokens, so nothing but the parked worker's
		// (already dropped) token could protect the items under its cursor.
		errc <- db.N.StoreToDisk(dir, s, 16, func(e *nitro.ItemEntry) {
			lastDelivered.Store(goid(), string(e.Item().Bytes()))
		})
	}()
	var victim string
	select {
	case <-parked:
		lv, _ := lastDelivered.Load(atomic.LoadInt64(&parkedGoid))
		last, _ := lv.(string)
		idx := sort.Search(len(want), func(i int) bool { return want[i].Key > last })
		if idx >= len(want) {
			close(resume)
			close(stage2)
			<-errc
			c.Inconclusive("visitor parked at the very end of the snapshot")
			return
		}
		victim = want[idx].Key
		n := w.GetNode([]byte(victim))
		if n == nil {
			close(resume)
			close(stage2)
			<-errc
			c.Inconclusive("cursor item not found")
			return
		}
		itemPtr = n.Item()
		if !w.Delete([]byte(victim)) {
			c.Inconclusive("delete of the cursor item failed")
		}
		s2, _ := db.N.NewSnapshot()
		s2.Close()
		db.N.GC()
		// wait until the parked visitor is the last accessor standing in the way: its session has been
		// closed (count = offset + 1) and every earlier session has been destructed
		bs := (*skiplist.BarrierSession)(parkedSession)
		ready := false
		for i := 0; i < 20000 && !ready; i++ {
			live, seq, _, _ := bs.VerifSessionInfo()
			_, freeSeq, _, _ := db.N.VerifStore().GetAccesBarrier().VerifBarrierState()
			ready = seq != 0 && live == (1<<31-1)/2+1 && freeSeq == seq-1
			if !ready {
				time.Sleep(500 * time.Microsecond)
			}
		}
		close(resume) // the visitor's decrement now terminates the session: ordered cleanup, destructor, free worker
		freed := false
		for i := 0; i < 8000 && !freed; i++ {
			freed = db.A.WasFreed(itemPtr)
			if !freed {
				time.Sleep(500 * time.Microsecond)
			}
		}
		c.Count("visitor_was_last_accessor_of_the_flushed_session", map[bool]int64{true: 1, false: 0}[ready])
		c.Count("cursor_item_released_before_the_visitor_left_its_release", map[bool]int64{true: 1, false: 0}[freed])
		close(stage2)
	case err := <-errc:
		c.Inconclusive(fmt.Sprintf("the visitor never refreshed (StoreToDisk returned %v)", err))
		return
	}
	if err := <-errc; err != nil {
		c.Inconclusive("StoreToDisk failed: " + err.Error())
		return
	}
	skiplist.VerifSetHook(nil)
	c.Evals(1)
	witness := map[string]interface{}{"keys": nKeys, "cursor_item_deleted": victim}
	for _, v := range db.A.Violations() {
		c.Violate("alloc-"+v.Kind, fmt.Sprintf("%+v", v), witness)
	}
	fresh := db.Fresh()
	res, stuck, inc := loadWithProbe(fresh, dir, 4)
	if inc || stuck || res.pan != nil || res.err != nil {
		c.Violate("refresh-after-release/load", fmt.Sprintf("delta backup taken while the cursor item of a refreshing visitor was reclaimed does not load: stuck=%v panic=%v err=%v", stuck, res.pan, res.err), witness)
		return
	}
	got, _ := Scan(res.snap, 0)
	if d := DiffScan(got, want); d != "" {
		c.Violate("refresh-after-release/content", "delta backup taken while the cursor item of a refreshing visitor was reclaimed (the visitor had dropped its token inside Iterator.Refresh): the scan continued from the wrong place; restored content differs: "+d, witness)
	}
	c.Sig("delta-refresh/victim-freed")
	c.Sample(map[string]interface{}{"directed": "delta backup: visitor parked in Iterator.Refresh while its cursor item is deleted, collected and released", "keys": nKeys, "victim": victim, "restored_items": len(got)})
	res.snap.Close()
}

// ---------------------------------------------------------------------------
// two flushers: the close order of barrier sessions must be the order of their swaps
//
// keys a, b, c; snap1; Delete(b); snap2 (garbage list [b]); snap3. A reader iterates snap3 and is parked
// inside Next right after it loaded a's successor pointer (b); it holds a token of barrier session S1.
// snap1.Close(): collection worker X flushes snap1's empty list (S1 -> S2) and is parked right after the
// session swap. snap2.Close(): worker Y unlinks b and flushes [b] (S2 -> S3). S1 was closed first and
// still contains the reader, so [b], attached to the younger S2, must stay pending until the reader has
// left: when the reader resumes and steps onto b, b must still be a live block. The verdict is taken at
// the reader's own read (hook VpIterNextRead / the guard allocator), never from a clock; the pauses only
// give a wrong ordering the time to release b.
//
// sameEpoch: the second flusher is not a collection worker but a writer deleting an item born in the
// current epoch (invisible to the reader's snapshot, physically in its way): Writer.Delete unlinks it
// and flushes it from the caller's goroutine.
func c04TwoFlushers(c *rt.C, mem string, sameEpoch bool) {
	hits, trials := 0, 6
	for trial := 0; trial < trials && !c.Failed(); trial++ {
		db := OpenDB(DBOpt{Mem: mem})
		w1 := db.N.NewWriter()
		_ = db.N.NewWriter() // a second writer: a second collection worker
		nodeA := w1.Put2([]byte("a"))
		var nodeB *skiplist.Node
		if !sameEpoch {
			nodeB = w1.Put2([]byte("b"))
		}
		w1.Put([]byte("c"))
		snap1, _ := db.N.NewSnapshot()
		var snap2 *nitro.Snapshot
		if !sameEpoch {
			if !w1.Delete([]byte("b")) {
				c.Inconclusive("delete of b failed")
				return
			}
			snap2, _ = db.N.NewSnapshot()
		}
		snap3, _ := db.N.NewSnapshot()
		if sameEpoch {
			nodeB = w1.Put2([]byte("b")) // born after snap3
		}
		delDone := make(chan bool, 1)
		var readerOnce, flushes, onFreed int32
		readerParked, readerGo := make(chan struct{}), make(chan struct{})
		f1Parked, f1Go := make(chan struct{}), make(chan struct{})
		skiplist.VerifSetHook(func(id int, arg unsafe.Pointer) {
			switch id {
			case skiplist.VpIterNextRead:
				if arg != nil && db.A.WasFreed(arg) {
					atomic.StoreInt32(&onFreed, 1)
				}
				if arg == unsafe.Pointer(nodeA) && atomic.CompareAndSwapInt32(&readerOnce, 0, 1) {
					close(readerParked)
					<-readerGo
				}
			case skiplist.VpFlushSwapped:
				if atomic.AddInt32(&flushes, 1) == 1 {
					close(f1Parked)
					<-f1Go
				}
			}
		})
		var seen []string
		type res struct{ fault interface{} }
		done := make(chan res, 1)
		go func() {
			debug.SetPanicOnFault(true)
			defer func() { done <- res{recover()} }()
			it := snap3.NewIterator()
			for it.SeekFirst(); it.Valid(); it.Next() {
				seen = append(seen, string(it.Get()))
			}
			it.Close()
		}()
		wait := func(ch chan struct{}) bool {
			select {
			case <-ch:
				return true
			case <-time.After(20 * time.Second):
				return false
			}
		}
		reached := wait(readerParked)
		if reached {
			snap1.Close() // worker X: flush of an empty list, parked after the swap
			reached = wait(f1Parked)
		}
		freedUnderReader := false
		if reached {
			hits++
			if sameEpoch {
				go func() { delDone <- w1.Delete([]byte("b")) }() // the writer itself unlinks b and flushes [b]
			} else {
				snap2.Close() // worker Y: unlink b, flush [b]
			}
			for i := 0; i < 150 && !freedUnderReader; i++ {
				freedUnderReader = db.A.WasFreed(unsafe.Pointer(nodeB))
				time.Sleep(2 * time.Millisecond)
			}
		}
		close(f1Go)
		time.Sleep(20 * time.Millisecond)
		if atomic.LoadInt32(&readerOnce) == 0 {
			atomic.StoreInt32(&readerOnce, 1)
		}
		close(readerGo)
		r := <-done
		if sameEpoch && reached {
			select {
			case ok := <-delDone:
				if !ok {
					c.Inconclusive("same-epoch delete of b failed")
				}
			case <-time.After(20 * time.Second):
				c.Inconclusive("same-epoch delete of b did not return")
				return
			}
		}
		skiplist.VerifSetHook(nil)
		c.Evals(1)
		witness := map[string]interface{}{"mem": mem, "trial": trial, "second_flusher": map[bool]string{false: "collection worker", true: "Writer.Delete of a current-epoch item"}[sameEpoch], "b_released_while_reader_parked": freedUnderReader, "reader_saw": seen}
		if r.fault != nil {
			c.Violate("use-after-free/two-flushers", fmt.Sprintf("an iterator that entered before b was unlinked (parked after loading the pointer to b) touched released memory when it resumed; the flush of the younger session [b] overtook the flush of the older session that still contains the iterator: %v", r.fault), witness)
			return
		}
		if atomic.LoadInt32(&onFreed) == 1 {
			c.Violate("use-after-free/two-flushers", "an iterator that entered before b was unlinked (parked after loading the pointer to b) stepped onto a node that had already been returned to the allocator: the flush of the younger session [b] overtook the flush of the older session that still contains the iterator", witness)
			return
		}
		for _, v := range db.A.Violations() {
			c.Violate("alloc-"+v.Kind, fmt.Sprintf("two flushers: %+v", v), witness)
		}
		if reached && fmt.Sprint(seen) != "[a c]" && !c.Failed() {
			c.Violate("two-flushers/scan", fmt.Sprintf("the snapshot iterator over {a, c} returned %v", seen), witness)
		}
		snap3.Close()
		db.N.Close()
		if n := db.A.LiveCount(); n != 0 && !c.Failed() {
			c.Inconclusive(fmt.Sprintf("C07's oracle: %d blocks live after Close", n))
		}
	}
	c.Sig("two-flushers/mem=%s/same-epoch=%v/reached=%v", mem, sameEpoch, hits > 0)
	c.Count("two_flusher_trials_reaching_the_window", int64(hits))
	if hits == 0 {
		c.Inconclusive("the two-flusher window was never reached")
	}
	c.Sample(map[string]interface{}{"directed": "two flushers: older session with a parked iterator, younger session carrying the unlinked node", "mem": mem, "trials": trials, "window_reached": hits})
}
