package props

import (
	"bytes"
	"errors"
	"fmt"
	"math/rand"
	"runtime"
	"sort"
	"sync"
	"sync/atomic"

	"github.com/couchbase/nitro"

	"nitroverif/internal/rt"
)

// C10 — Visitor: exactly once, ordered partition, error propagation.

type visitEv struct {
	shard int
	item  []byte
}

// visitAndCheck runs Visitor on hs and checks the callback log. errAt >= 0
// makes the errAt-th callback invocation (global order) fail.
func visitAndCheck(db *DB, hs *HSnap, shards, concurr int, errAt []int) (kind, detail string, pivotSig string) {
	var mu sync.Mutex
	var evs []visitEv
	ncall := 0
	failed := 0
	errSet := map[int]bool{}
	for _, e := range errAt {
		errSet[e] = true
	}
	injected := errors.New("injected callback failure")
	cb := func(itm *nitro.Item, shard int) error {
		b := append([]byte(nil), itm.Bytes()...)
		mu.Lock()
		defer mu.Unlock()
		k := ncall
		ncall++
		if ncall > len(hs.Want)+len(errAt)+1000 {
			return injected // an endless visit is cut short here and reported below
		}
		if errSet[k] {
			failed++
			return injected
		}
		evs = append(evs, visitEv{shard, b})
		return nil
	}
	var err error
	done, stuck := runWithDeadlockProbe("nitro.(*Nitro).Visitor", func() { err = db.N.Visitor(hs.S, cb, shards, concurr) })
	if !done {
		if stuck {
			return "does-not-terminate", fmt.Sprintf("Visitor(shards=%d, concurrency=%d) never returns: every goroutine of the call is parked on a call-local channel / wait group (identical in four consecutive goroutine-profile samples)", shards, concurr), ""
		}
		return "inconclusive", "Visitor did not return within the sampling budget and its goroutines are not all parked", ""
	}
	mu.Lock()
	tooMany := ncall > len(hs.Want)+len(errAt)+1000
	mu.Unlock()
	if tooMany {
		return "does-not-terminate", fmt.Sprintf("the callback was invoked %d times for a snapshot of %d items before the harness cut the visit short", ncall, len(hs.Want)), ""
	}
	if failed > 0 {
		if err == nil {
			return "error-swallowed", fmt.Sprintf("a callback returned an error (%d did) but Visitor(shards=%d, concurrency=%d) returned nil", failed, shards, concurr), ""
		}
		return "", "", fmt.Sprintf("err/%d", min(failed, 3))
	}
	if err != nil {
		return "spurious-error", fmt.Sprintf("no callback failed but Visitor returned %v", err), ""
	}
	// per shard: strictly ascending (log order within a shard is delivery order because
	// a shard is processed by one goroutine and the log is appended under a mutex)
	per := map[int][][]byte{}
	for _, e := range evs {
		per[e.shard] = append(per[e.shard], e.item)
	}
	var ids []int
	for s := range per {
		ids = append(ids, s)
	}
	sort.Ints(ids)
	var all [][]byte
	for _, s := range ids {
		items := per[s]
		for i := 1; i < len(items); i++ {
			if !db.KeyLess(db.KeyOf(items[i-1]), db.KeyOf(items[i])) {
				return "shard-order", fmt.Sprintf("shard %d delivered %s then %s (not strictly ascending); shards=%d concurrency=%d", s, fmtItem(items[i-1]), fmtItem(items[i]), shards, concurr), ""
			}
		}
		if len(all) > 0 && len(items) > 0 && !db.KeyLess(db.KeyOf(all[len(all)-1]), db.KeyOf(items[0])) {
			return "partition-order", fmt.Sprintf("last item of an earlier shard %s is not below first item %s of shard %d; shards=%d concurrency=%d (duplicate or overlapping ranges)", fmtItem(all[len(all)-1]), fmtItem(items[0]), s, shards, concurr), ""
		}
		all = append(all, items...)
	}
	if d := DiffScan(all, hs.Want); d != "" {
		return "content", fmt.Sprintf("visited items differ from the snapshot's reference content: %s; shards=%d concurrency=%d", d, shards, concurr), ""
	}
	for i := range all {
		if !bytes.Equal(all[i], hs.Want[i].Item) {
			return "content", "bytes differ", ""
		}
	}
	return "", "", fmt.Sprintf("ok/usedshards=%d", min(len(ids), 9))
}

func runC10(c *rt.C) {
	r := c.Rng
	mem := memModes()[c.Index%3]
	kv := (c.Index/3)%3 == 1
	rev := (c.Index/3)%3 == 2
	nKeys := pick(r, 1, 2, 5, 12, 40, 150, 600)
	// every 25th case: more than 10000 physical items per shard, so the Visitor's iterators (refresh rate
	// 10000) re-seek in the middle of a shard, on keys that have older and newer versions around them
	large := c.Index%25 == 24
	ho := HistOpt{NKeys: nKeys, Epochs: 2 + r.Intn(6), OpsPerEpoch: nKeys + r.Intn(2*nKeys+1), KeepProb: 0.6, Writers: 1 + r.Intn(3), DeleteBias: 35}
	if large {
		nKeys = 11000 + r.Intn(3000)
		if mem == "pageguard" {
			mem = "poison" // the page-guard arena holds 24k live blocks
		}
		ho = HistOpt{NKeys: nKeys, Epochs: 2 + r.Intn(2), OpsPerEpoch: 2 * nKeys, KeepProb: 0.9, Writers: 1 + r.Intn(3), DeleteBias: 35}
	}
	db := OpenDB(DBOpt{Mem: mem, KV: kv, Rev: rev})
	h := BuildHistory(r, db, ho)
	maxv, total := h.PhysicalVersions()
	pairs := 8
	if large {
		pairs = 3
	}
	// every 2nd case: a churn goroutine inserts and (same-epoch) deletes newer versions of the keys
	// while the visits run on the already created snapshots
	churn := c.Index%2 == 1
	var stopChurn int32
	var churnWG sync.WaitGroup
	if churn {
		churnWG.Add(1)
		go func() {
			defer churnWG.Done()
			cr := rand.New(rand.NewSource(c.Seed ^ 0xc10))
			w := h.Writers[0]
			for n := 0; atomic.LoadInt32(&stopChurn) == 0 && n < 300000; n++ {
				kid := cr.Intn(nKeys)
				if cr.Intn(2) == 0 {
					w.Delete(db.Item(kid, "x"))
				} else {
					w.Put2(db.Item(kid, fmt.Sprintf("c%d", n)))
				}
				if n%8 == 0 {
					runtime.Gosched()
				}
			}
		}()
	}
	stop := func() {
		atomic.StoreInt32(&stopChurn, 1)
		churnWG.Wait()
	}
	defer stop()
	for si, hs := range h.Snaps {
		if c.Failed() {
			break
		}
		for p := 0; p < pairs && !c.Failed(); p++ {
			shards := pick(r, 1, 2, 3, 4, 7, runtime.NumCPU(), len(hs.Want)+1, len(hs.Want)+5, 64)
			concurr := pick(r, 1, 2, 3, 8, 16)
			if large {
				shards = pick(r, 1, 1, 2, 3)
			}
			var errAt []int
			if p%4 == 3 && len(hs.Want) > 0 {
				errAt = append(errAt, r.Intn(len(hs.Want)))
				if r.Intn(2) == 0 {
					errAt = append(errAt, r.Intn(len(hs.Want)))
				}
			}
			kind, detail, sig := visitAndCheck(db, hs, shards, concurr, errAt)
			c.Evals(1)
			if kind == "inconclusive" {
				c.Inconclusive(detail)
				break
			}
			if kind != "" {
				c.Violate(kind, fmt.Sprintf("snapshot sn=%d (%d items, up to %d versions/key, %d physical nodes): %s", hs.Sn, len(hs.Want), maxv, total, detail),
					map[string]interface{}{"mem": mem, "kv": kv, "keys": nKeys, "shards": shards, "concurrency": concurr, "err_at": errAt, "want": entriesToStrings(hs.Want, 40)})
				break
			}
			shCls := "lt"
			if shards > len(hs.Want) {
				shCls = "gt-items"
			}
			c.Sig("%s/shards=%s/conc=%d/maxv=%d/n=%s/churn=%v", sig, shCls, concurr, min(maxv, 4), sizeClass(len(hs.Want)), churn)
			if si == 0 && p == 0 {
				c.Sample(map[string]interface{}{"mem": mem, "kv": kv, "keys": nKeys, "open_snapshots": len(h.Snaps), "items": len(hs.Want),
					"max_versions_per_key": maxv, "physical_nodes": total, "shards": shards, "concurrency": concurr})
			}
		}
	}
	// exhaustive error placement for one small snapshot
	if !c.Failed() && len(h.Snaps) > 0 {
		hs := h.Snaps[r.Intn(len(h.Snaps))]
		if len(hs.Want) <= 24 {
			for pos := 0; pos < len(hs.Want) && !c.Failed(); pos++ {
				kind, detail, _ := visitAndCheck(db, hs, pick(r, 1, 2, 4, 16), pick(r, 1, 2, 4), []int{pos})
				c.Evals(1)
				if kind == "inconclusive" {
					c.Inconclusive(detail)
					break
				}
				if kind != "" {
					c.Violate(kind, fmt.Sprintf("error injected at callback #%d: %s", pos, detail), map[string]interface{}{"mem": mem, "kv": kv})
				}
				c.Sig("errpos/%s", posClass(pos, len(hs.Want)))
			}
		}
	}
	stop()
	if !c.Failed() {
		h.CloseAll()
		db.N.Close()
	}
}

func sizeClass(n int) string {
	switch {
	case n == 0:
		return "0"
	case n == 1:
		return "1"
	case n < 10:
		return "<10"
	case n < 100:
		return "<100"
	case n > 10000:
		return ">10000"
	}
	return ">=100"
}

func init() {
	rt.Register(&rt.Prop{
		ID: "C10", Level: "exploration",
		Technique: "runtime monitoring: callback event log checked for per-shard order, cross-shard partition order and multiset equality with the frozen model copy; injected callback errors",
		Rule: "each case builds a seeded multi-version history (1-600 keys, snapshots kept open so pivots can be invisible versions) and visits every open snapshot with 8 random (shards ∈ {1,2,3,4,7,NumCPU,items+1,items+5,64}, concurrency ∈ {1,2,3,8,16}) pairs, every 4th with 1-2 injected callback errors, plus every error position for one small snapshot. Every 25th case is large (11000-14000 keys, 2-3 epochs of 2x that many operations, 1-3 shards): each Visitor iterator refreshes (rate 10000) in the middle of its shard, among older and newer versions of the keys. " +
			"evaluations = Visitor calls checked; distinct = (outcome incl. number of non-empty shards, shards>items?, concurrency, max physical versions per key, size class) tuples",
		Assumptions: []string{"in every 2nd case one churn goroutine (owning its writer) inserts and deletes newer versions of the keys while the visits run; snapshot creation never overlaps a writer call", "non-termination is reported in two structural forms: a deadlock (every goroutine of the Visitor call parked on call-local synchronisation, identical in four consecutive goroutine-profile samples) and an endless visit (more than items+1000 callback invocations); any other hang ends as inconclusive via the watchdog"},
		Cases: func(t string) int {
			if t == "thorough" {
				return 4000
			}
			return 150
		},
		Batch:   func(t string) int { return 20 },
		Procs:   8,
		MinSigs: 20,
		Run:     runC10,
	})
}
