// nv is the single driver of the nitro runtime-verification harness.
//
//	nv check <ID> [-tier quick|thorough] [-seed N] [-case K] [-procs P]
//	nv child <ID> -tier T -seed N -from A -to B -out FILE      (internal)
//	nv list
package main

import (
	"flag"
	"fmt"
	"os"
	"strconv"

	_ "nitroverif/internal/props"
	"nitroverif/internal/rt"
)

func envSeed() int64 {
	if s := os.Getenv("VERIF_SEED"); s != "" {
		if v, err := strconv.ParseInt(s, 10, 64); err == nil {
			return v
		}
	}
	return 1
}

func main() {
	if len(os.Args) < 2 {
		fmt.Fprintln(os.Stderr, "usage: nv check|child|list ...")
		os.Exit(2)
	}
	switch os.Args[1] {
	case "list":
		for _, id := range rt.IDs() {
			fmt.Println(id)
		}
	case "check":
		if len(os.Args) < 3 {
			os.Exit(2)
		}
		fs := flag.NewFlagSet("check", flag.ExitOnError)
		tier := fs.String("tier", "", "quick|thorough")
		seed := fs.Int64("seed", envSeed(), "seed")
		only := fs.Int("case", -1, "run only this case")
		procs := fs.Int("procs", 0, "parallel children")
		fs.Parse(os.Args[3:])
		if *tier == "" {
			*tier = os.Getenv("VERIF_TIER")
		}
		if *tier == "" {
			*tier = "quick"
		}
		os.Exit(rt.CheckMain(rt.Options{Prop: os.Args[2], Tier: *tier, Seed: *seed, Only: *only, Procs: *procs}))
	case "child":
		fs := flag.NewFlagSet("child", flag.ExitOnError)
		tier := fs.String("tier", "quick", "")
		seed := fs.Int64("seed", 1, "")
		from := fs.Int("from", 0, "")
		to := fs.Int("to", 0, "")
		out := fs.String("out", "", "")
		fs.Parse(os.Args[3:])
		os.Exit(rt.ChildMain(os.Args[2], *tier, *seed, *from, *to, *out))
	default:
		fmt.Fprintln(os.Stderr, "unknown command", os.Args[1])
		os.Exit(2)
	}
}
