module nitroverif

go 1.18

require (
	github.com/anishathalye/porcupine v1.3.0
	github.com/couchbase/nitro v0.0.0
)

replace github.com/couchbase/nitro => /repo
