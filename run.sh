#!/bin/bash
# run.sh <ID> <tier> [nv flags]: rebuild the harness against /repo's working tree (hooks on) and run one check.
# VERIF_REPO=<dir> (self-validation only) builds against a scratch copy of the repository instead.
set -u
export GOFLAGS=-mod=mod GOPROXY=off GOSUMDB=off GOTOOLCHAIN=local
here="$(cd "$(dirname "$0")" && pwd)"
export VERIF_DIR="${VERIF_DIR:-$here}"
id="$1"; tier="${2:-${VERIF_TIER:-quick}}"; shift; shift || true
mkdir -p "$VERIF_DIR/bin" "$VERIF_DIR/evidence" "$VERIF_DIR/replays" "$VERIF_DIR/work"
bin="$VERIF_DIR/bin/nv"
if [ -n "${VERIF_REPO:-}" ]; then
  tag=$(echo "$VERIF_REPO" | md5sum | cut -c1-8)
  mf="$here/harness/.alt-$tag.mod"
  sed "s#=> /repo#=> $VERIF_REPO#" "$here/harness/go.mod" > "$mf"
  cp -f "$here/harness/go.sum" "$here/harness/.alt-$tag.sum" 2>/dev/null
  bin="$VERIF_DIR/bin/nv-alt-$tag"
  ( cd "$here/harness" && go build -modfile="$mf" -tags verif -o "$bin" ./cmd/nv ) || { echo "BUILD FAILED (harness against $VERIF_REPO)"; rm -f "$mf" "$here/harness/.alt-$tag.sum"; exit 3; }
  rm -f "$mf" "$here/harness/.alt-$tag.sum"
else
  ( cd "$here/harness" && go build -tags verif -o "$bin" ./cmd/nv ) || { echo "BUILD FAILED (harness against /repo working tree)"; exit 3; }
fi
exec "$bin" check "$id" -tier "$tier" "$@"
