#!/bin/bash
# run.sh <ID> <tier>: rebuild the harness against /repo's working tree (hooks on) and run one check.
set -u
export GOFLAGS=-mod=mod GOPROXY=off GOSUMDB=off GOTOOLCHAIN=local
here="$(cd "$(dirname "$0")" && pwd)"
export VERIF_DIR="$here"
id="$1"; tier="${2:-${VERIF_TIER:-quick}}"; shift; shift || true
mkdir -p "$here/bin" "$here/evidence" "$here/replays" "$here/work"
( cd "$here/harness" && cp -f /repo/go.sum go.sum 2>/dev/null; go build -tags verif -o "$here/bin/nv" ./cmd/nv ) || { echo "BUILD FAILED (harness against /repo working tree)"; exit 3; }
exec "$here/bin/nv" check "$id" -tier "$tier" "$@"
