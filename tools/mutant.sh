#!/bin/bash
# tools/mutant.sh <patch.diff> <tier> <ID>... : apply a patch to a scratch worktree of /repo (never to /repo itself),
# run the given checks against it, print which fired, remove the worktree.
set -u
patch="$(readlink -f "$1")"; tier="$2"; shift 2
here="$(cd "$(dirname "$0")/.." && pwd)"
wt=$(mktemp -d /tmp/mutwt-XXXXXX); rmdir "$wt"
git -C /repo worktree add -q --detach "$wt" HEAD || exit 3
out=$(mktemp -d /tmp/mutout-XXXXXX)
cleanup() { git -C /repo worktree remove --force "$wt" >/dev/null 2>&1; rm -rf "$out" "$here"/bin/nv-alt-*; }
trap cleanup EXIT
if ! git -C "$wt" apply "$patch"; then echo "PATCH DOES NOT APPLY"; exit 3; fi
for id in "$@"; do
  res=$(VERIF_DIR="$out" VERIF_REPO="$wt" VERIF_SEED="${VERIF_SEED:-1}" "$here/run.sh" "$id" "$tier" 2>&1); rc=$?
  first=$(echo "$res" | grep -m1 "kind=" | cut -c1-260)
  echo "MUTANT $(basename $(dirname "$patch")) check=$id tier=$tier rc=$rc $(echo "$res" | grep -E "^$id tier" | sed 's/.*evaluations/evaluations/') :: $first"
done
