#!/usr/bin/env python3
"""Generate /verif/MANIFEST.json from tools/checks.json (per-property texts) and the list of built checks."""
import json, os, subprocess, sys
here = os.path.dirname(os.path.dirname(os.path.abspath(__file__)))
checks = json.load(open(os.path.join(here, "tools", "checks.json")))
props = [json.loads(l) for l in open(os.path.join(here, "properties.jsonl"))]
hook_commits = subprocess.run(["git", "-C", "/repo", "log", "--format=%H %s"], capture_output=True, text=True).stdout.splitlines()
hook_commits = [l.split()[0] for l in hook_commits if "verif hooks" in l]
m = {
    "version": 1,
    "setup_cmd": "bash /verif/setup.sh",
    "hooks": {
        "guard": "verif",
        "enable": "Go build tag: the harness is built with `go build -tags verif` against `replace github.com/couchbase/nitro => /repo` (see run.sh)",
        "baseline_off_cmd": "cd /repo && go test -mod=mod -json -vet=off -count=1 -timeout 25m ./...",
        "source_commits": list(reversed(hook_commits)),
        "add_only": True,
    },
    "engines": [
        {"name": "nv", "path": "harness/cmd/nv", "serves_properties": sorted(checks.keys()),
         "kind_free_text": "Go driver: seeded case lists, child processes per batch, crash classification, evidence/replay writers; monitors = reference models, porcupine history checker, guard allocators with shadow live-set, structure walker, serialized schedule controller, file-fault injectors"},
    ],
    "checks": [],
    "not_applicable": [],
    "notes": "All checks: `./run.sh <ID> <tier>` rebuilds the harness from /repo's working tree with -tags verif, runs seeded cases in child processes and writes evidence/<ID>.json. Open genuine defects are listed in known_findings.json.",
}
for p in props:
    pid = p["id"]
    if pid in checks:
        c = checks[pid]
        m["checks"].append({
            "property_id": pid,
            "quick_cmd": "./run.sh %s quick" % pid,
            "thorough_cmd": "./run.sh %s thorough" % pid,
            "evidence_file": "/verif/evidence/%s.json" % pid,
            "replay_cmd_template": "bash -c \"$(jq -r .replay {path})\"   # re-runs exactly the violating case: VERIF_SEED=<seed> /verif/bin/nv check %s -tier <tier> -case <k> (binary from the last ./run.sh)" % pid,
            "engine": "nv",
            "level_claimed": {"category": c["level"], "text": c["text"], "design_ref": c.get("design_ref", "DESIGN.md §2 " + pid)},
            "level_note": c["note"],
            "technique": c["technique"],
        })
    else:
        m["not_applicable"].append({"property_id": pid, "reason": "check not built yet in this session (runtime monitoring applies; see DESIGN.md §2 %s)" % pid})
json.dump(m, open(os.path.join(here, "MANIFEST.json"), "w"), indent=1)
print("wrote MANIFEST.json with", len(m["checks"]), "checks;", len(m["not_applicable"]), "not claimed")
