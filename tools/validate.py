#!/opt/veriftools/pyvenv/bin/python3
import json, jsonschema, sys, glob
jsonschema.validate(json.load(open('/verif/MANIFEST.json')), json.load(open('/root/.vp/MANIFEST.schema.json')))
es = json.load(open('/root/.vp/EVIDENCE.schema.json'))
m = json.load(open('/verif/MANIFEST.json'))
bad = 0
for c in m['checks']:
    try:
        jsonschema.validate(json.load(open(c['evidence_file'])), es)
    except Exception as e:
        bad += 1
        print("EVIDENCE PROBLEM", c['property_id'], str(e)[:200])
print("manifest valid;", len(m['checks']), "checks;", bad, "evidence problems")
