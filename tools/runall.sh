#!/bin/bash
# tools/runall.sh <tier> <seed>...  : run every check at the given seeds; one summary line each.
tier="${1:-quick}"; shift
seeds="${@:-1}"
cd "$(dirname "$0")/.."
export GOFLAGS=-mod=mod GOPROXY=off GOSUMDB=off GOTOOLCHAIN=local
( cd harness && go build -tags verif -o ../bin/nv ./cmd/nv ) || exit 3
for s in $seeds; do
  for id in $(./bin/nv list); do
    out=$(VERIF_SEED=$s ./bin/nv check $id -tier $tier 2>&1); rc=$?
    echo "seed=$s rc=$rc $(echo "$out" | grep -E "^$id tier" )"
    if [ $rc -ne 0 ]; then echo "$out" | grep -E "kind=|INCONCL" | head -5 | cut -c1-400; fi
  done
done
