#!/bin/bash
# tools/intake.sh <round> <CNN-X>... : copy a sub-agent's deliverable from /tmp/m2-CNN/_mutant/X to seeded/<round>-CNN-X
# (logs, go.sum and nested worktrees dropped) and confirm its demonstration.
r=$1; shift
for m in "$@"; do p=${m%-*}; v=${m#*-}; d=/verif/seeded/$r-$m; mkdir -p "$d"
  cp "/tmp/m2-$p/_mutant/$v/patch.diff" "$d/"; cp "/tmp/m2-$p/_mutant/$v/NOTES.md" "$d/" 2>/dev/null; cp -r "/tmp/m2-$p/_mutant/$v/demo" "$d/"
  find "$d" -name '*.log' -delete; find "$d" -name go.sum -delete; find "$d" -name '*.test' -delete
  /verif/tools/confirm_mutant.sh "$d" demo 2>&1 | grep CONFIRM
done
