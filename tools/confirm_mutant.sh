#!/bin/bash
# tools/confirm_mutant.sh <seeded-dir> [demo|tests|all] : confirm a seeded change in scratch worktrees of /repo:
#  demo  - the demonstration fails with the change and passes without it
#  tests - the repository's existing tests of the affected packages still pass with the change
set -u
export GOFLAGS=-mod=mod GOPROXY=off GOSUMDB=off GOTOOLCHAIN=local
sd="$(readlink -f "$1")"; what="${2:-all}"
patch="$sd/patch.diff"; [ -f "$sd/patch.rebased.diff" ] && patch="$sd/patch.rebased.diff"
name=$(basename "$sd")
run_demo() { # $1 = worktree ; prints PASS/FAIL
  wt="$1"; demo="$sd/demo"; tmp=$(mktemp -d /tmp/demo-XXXXXX)
  if [ -f "$demo/go.mod" ]; then
    cp -r "$demo/." "$tmp/"; sed -i "s#=> /tmp/m[a-z0-9]*-C[0-9]*#=> $wt#" "$tmp/go.mod"; rm -f "$tmp/go.sum"
    if ls "$tmp"/*_test.go >/dev/null 2>&1; then (cd "$tmp" && timeout 900 go test -tags verif -vet=off -count=1 ./... >"$tmp/out.txt" 2>&1); rc=$?
    else (cd "$tmp" && timeout 900 go run -tags verif . >"$tmp/out.txt" 2>&1); rc=$?; fi
  else
    rc=0
    for f in "$demo"/*_test.go; do
      pkg=$(grep -m1 '^package ' "$f" | awk '{print $2}'); dir="$wt"; [ "$pkg" = "skiplist" ] && dir="$wt/skiplist"; [ "$pkg" = "nodetable" ] && dir="$wt/nodetable"
      cp "$f" "$dir/zz_seeded_demo_$(basename $f)"
    done
    pat=$(grep -h -o '^func Test[A-Za-z0-9_]*' "$demo"/*_test.go | sed 's/func //' | paste -sd'|')
    for dir in "$wt" "$wt/skiplist" "$wt/nodetable"; do
      if ls "$dir"/zz_seeded_demo_* >/dev/null 2>&1; then (cd "$dir" && timeout 1500 go test -tags verif -vet=off -count=1 -run "^($pat)\$" . >>"$tmp/out.txt" 2>&1) || rc=1; rm -f "$dir"/zz_seeded_demo_*; fi
    done
  fi
  tail -3 "$tmp/out.txt" | cut -c1-200 | sed 's/^/      | /'
  rm -rf "$tmp"
  return $rc
}
wt=$(mktemp -d /tmp/cfwt-XXXXXX); rmdir "$wt"; git -C /repo worktree add -q --detach "$wt" HEAD || exit 3
trap 'git -C /repo worktree remove --force "$wt" >/dev/null 2>&1' EXIT
if [ "$what" = demo ] || [ "$what" = all ]; then
  run_demo "$wt"; r0=$?
  git -C "$wt" apply "$patch" || { echo "CONFIRM $name: PATCH DOES NOT APPLY"; exit 3; }
  (cd "$wt" && go build ./... ) || { echo "CONFIRM $name: DOES NOT COMPILE"; exit 3; }
  run_demo "$wt"; r1=$?
  echo "CONFIRM $name demo: without-change rc=$r0 (want 0)  with-change rc=$r1 (want !=0)"
else
  git -C "$wt" apply "$patch" || { echo "CONFIRM $name: PATCH DOES NOT APPLY"; exit 3; }
fi
if [ "$what" = tests ] || [ "$what" = all ]; then
  pk="."; grep -q '^+++ b/skiplist/' "$patch" && pk=". ./skiplist"; grep -q '^+++ b/nodetable/' "$patch" && pk="./nodetable"
  (cd "$wt" && go test -vet=off -count=1 -timeout 90m $pk > "$wt.testlog" 2>&1); rc=$?
  echo "CONFIRM $name tests($pk): rc=$rc $(grep -E '^(ok|FAIL|---)' "$wt.testlog" | tr '\n' ' ' | cut -c1-300)"
  rm -f "$wt.testlog"
fi
