#!/bin/bash
# Offline setup: build the harness once (warms the Go build cache incl. nitro's cgo package).
set -e
export GOFLAGS=-mod=mod GOPROXY=off GOSUMDB=off GOTOOLCHAIN=local
cd /verif/harness
mkdir -p /verif/bin /verif/evidence /verif/replays /verif/work
go build -tags verif -o /verif/bin/nv ./cmd/nv
/verif/bin/nv list
